"""Independent readers of exported artefacts.

pkg_nets(pkg): reads a vlsir.circuit.Package THE WAY THE VLSIR NETLISTERS READ IT (buses most
significant first, Slice.top inclusive, Concat.parts[0] most significant - see
vlsirtools/netlist/spice.py format_signal_ref/format_signal_slice/format_concat) and flattens
it to the leaf-level partition of (path, port, bit).
check_package(pkg): closure/self-consistency validator (C06).
spice_nets(text): second reading through the emitted spice netlist.
"""
from decimal import Decimal
from vlib.dsl import UF

PREFIX_EXP = {"YOCTO": -24, "ZEPTO": -21, "ATTO": -18, "FEMTO": -15, "PICO": -12, "NANO": -9, "MICRO": -6,
              "MILLI": -3, "CENTI": -2, "DECI": -1, "DECA": 1, "HECTO": 2, "KILO": 3, "MEGA": 6, "GIGA": 9,
              "TERA": 12, "PETA": 15, "EXA": 18, "ZETTA": 21, "YOTTA": 24, "UNIT": 0}


def param_value(pv):
    """python value of a vlsir ParamValue: ('int',v) ('double',v) ('string',v) ('literal',v) ('prefixed', Decimal mantissa, prefix name)"""
    import vlsir.utils_pb2 as u
    k = pv.WhichOneof("value")
    if k == "prefixed":
        p = pv.prefixed
        nk = p.WhichOneof("number")
        num = getattr(p, nk)
        return ("prefixed", nk, str(num), u.SIPrefix.Name(p.prefix))
    if k is None:
        return ("none",)
    return (k, getattr(pv, k))


def param_decimal(pv):
    """exact decimal value of a numeric ParamValue (None if not numeric)"""
    v = param_value(pv)
    if v[0] == "prefixed":
        return Decimal(v[2]) * (Decimal(10) ** PREFIX_EXP[v[3]])
    if v[0] in ("int64_value", "double_value"):
        return Decimal(repr(v[1])) if v[0] == "double_value" else Decimal(v[1])
    return None


def _sigw(m):
    return {s.name: s.width for s in m.signals}


def pkg_nets(pkg, topname=None, with_params=True):
    mods = {m.name: m for m in pkg.modules}
    exts = {(e.name.domain, e.name.name): e for e in pkg.ext_modules}
    top = mods[topname] if topname else pkg.modules[-1]
    uf = UF()
    terms = []
    leaves = []

    def tbits(m, path, t):
        """MSB-first list of node keys, as the spice/spectre/verilog netlisters print them"""
        k = t.WhichOneof("stype")
        if k == "sig":
            return [(path, t.sig, i) for i in reversed(range(_sigw(m)[t.sig]))]
        if k == "slice":
            return [(path, t.slice.signal, i) for i in reversed(range(t.slice.bot, t.slice.top + 1))]
        if k == "concat":
            out = []
            for p in t.concat.parts:
                out += tbits(m, path, p)
            return out
        raise ValueError(k)

    def walk(m, path):
        for inst in m.instances:
            ipath = path + (inst.name,)
            which = inst.module.WhichOneof("to")
            if which == "local":
                child = mods[inst.module.local]
                pw = {p.signal: _sigw(child)[p.signal] for p in child.ports}
            else:
                key = (inst.module.external.domain, inst.module.external.name)
                if key in exts:
                    e = exts[key]
                    pw = {p.signal: {s.name: s.width for s in e.signals}[p.signal] for p in e.ports}
                else:
                    pw = {c.portname: 1 for c in inst.connections}  # hdl21/vlsir primitives: scalar ports
                params = tuple(sorted((p.name, _pstr(p.value)) for p in inst.parameters)) if with_params else ()
                leaves.append((ipath, inst.module.external.name, params))
                for p, w in pw.items():
                    for i in range(w):
                        terms.append((ipath, p, i))
                        uf.find((ipath, p, i))
            seen = set()
            for c in inst.connections:
                assert c.portname not in seen, "port connected twice"
                seen.add(c.portname)
                w = pw[c.portname]
                b = tbits(m, path, c.target)
                assert len(b) == w, ("width", inst.name, c.portname, len(b), w)
                for j, node in enumerate(b):
                    uf.union((ipath, c.portname, w - 1 - j), node)
            if which == "local":
                walk(mods[inst.module.local], ipath)

    for p in top.ports:
        for i in range(_sigw(top)[p.signal]):
            terms.append(((), p.signal, i))
            uf.find(((), p.signal, i))
    walk(top, ())
    groups = {}
    for t in terms:
        groups.setdefault(uf.find(t), set()).add(t)
    return {frozenset(g) for g in groups.values()}, sorted(leaves)


def _pstr(pv):
    d = param_decimal(pv)
    if d is not None:
        # canonical decimal text: integral values print as ints
        return str(d.quantize(Decimal(1))) if d == d.to_integral_value() else str(d.normalize())
    v = param_value(pv)
    return str(v[1]) if len(v) > 1 else "none"


# ---------------------------------------------------------------------------------------
def _prim_ports():
    """port tables of the primitives the exporter may reference, read from the libraries themselves"""
    import vlsirtools.primitives as vp
    import hdl21.primitives as P
    t = {("vlsir.primitives", k): [p.signal for p in v.ports] for k, v in vp.dct.items()}
    for v in vars(P).values():
        if isinstance(v, P.Primitive) and v.primtype.name == "PHYSICAL":
            t[("hdl21.primitives", v.name)] = [p.name for p in v.port_list]
    return t


def check_package(pkg):
    """returns a list of problems (empty = closed and self-consistent)"""
    probs = []
    prims = _prim_ports()
    names = [m.name for m in pkg.modules]
    if len(set(names)) != len(names):
        probs.append("duplicate module names")
    ext = {}
    for e in pkg.ext_modules:
        k = (e.name.domain, e.name.name)
        if k in ext:
            probs.append(f"duplicate external module {k}")
        ext[k] = e
    seen = {}
    for m in pkg.modules:
        sw = {}
        for s in m.signals:
            if s.name in sw:
                probs.append(f"{m.name}: duplicate signal {s.name}")
            if s.width < 1:
                probs.append(f"{m.name}: signal {s.name} width {s.width}")
            sw[s.name] = s.width
        pn = [p.signal for p in m.ports]
        if len(set(pn)) != len(pn):
            probs.append(f"{m.name}: duplicate port")
        for p in pn:
            if p not in sw:
                probs.append(f"{m.name}: port {p} names no signal")
        inames = [i.name for i in m.instances]
        if len(set(inames)) != len(inames):
            probs.append(f"{m.name}: duplicate instance name")
        for n in inames:
            if n in sw:
                pass  # vlsir keeps separate name spaces for instances and signals
        for inst in m.instances:
            which = inst.module.WhichOneof("to")
            if which == "local":
                if inst.module.local not in seen:
                    probs.append(f"{m.name}.{inst.name}: target {inst.module.local} not defined before use")
                    continue
                child = seen[inst.module.local]
                cw = {s.name: s.width for s in child.signals}
                pw = {p.signal: cw.get(p.signal, 0) for p in child.ports}
            elif which == "external":
                k = (inst.module.external.domain, inst.module.external.name)
                if k in ext:
                    ew = {s.name: s.width for s in ext[k].signals}
                    pw = {p.signal: ew.get(p.signal, 0) for p in ext[k].ports}
                elif k in prims:
                    pw = {p: 1 for p in prims[k]}
                else:
                    probs.append(f"{m.name}.{inst.name}: undeclared external module {k}")
                    continue
            else:
                probs.append(f"{m.name}.{inst.name}: no target")
                continue
            cn = [c.portname for c in inst.connections]
            if len(set(cn)) != len(cn):
                probs.append(f"{m.name}.{inst.name}: port connected twice")
            if set(cn) != set(pw):
                probs.append(f"{m.name}.{inst.name}: connected ports {sorted(cn)} != target ports {sorted(pw)}")
            for c in inst.connections:
                w = _target_width(c.target, sw, probs, f"{m.name}.{inst.name}.{c.portname}")
                if w is not None and c.portname in pw and w != pw[c.portname]:
                    probs.append(f"{m.name}.{inst.name}.{c.portname}: width {w} != port width {pw[c.portname]}")
        seen[m.name] = m
    return probs


def _target_width(t, sw, probs, where):
    k = t.WhichOneof("stype")
    if k == "sig":
        if t.sig not in sw:
            probs.append(f"{where}: undeclared signal {t.sig}")
            return None
        return sw[t.sig]
    if k == "slice":
        s = t.slice
        if s.signal not in sw:
            probs.append(f"{where}: undeclared signal {s.signal}")
            return None
        if not (0 <= s.bot <= s.top < sw[s.signal]):
            probs.append(f"{where}: slice [{s.top}:{s.bot}] outside {s.signal}[{sw[s.signal]}]")
            return None
        return s.top - s.bot + 1
    if k == "concat":
        ws = [_target_width(p, sw, probs, where) for p in t.concat.parts]
        if not ws:
            probs.append(f"{where}: empty concat")
            return None
        return None if any(w is None for w in ws) else sum(ws)
    probs.append(f"{where}: empty connection target")
    return None


# ---------------------------------------------------------------------------------------
def flat_bits(name, width):
    """netlister naming of the bits of a port, most significant first"""
    return [name] if width == 1 else [f"{name}_{k}" for k in reversed(range(width))]


def spice_nets(text, pkg, topname=None):
    """Second reading: the spice netlist text (positional connections against .SUBCKT port order).
    Returns the leaf-level partition over (path, port, bit) like pkg_nets; `pkg` is used only for the
    port lists (name, width, order) of external modules / primitives, which spice does not declare."""
    def nl(name):  # netlisters name subcircuits by the last path segment, sanitised
        name = name.split(".")[-1]
        return "".join(ch if (ch.isalnum() or ch == "_") else "_" for ch in name)

    mods = {nl(m.name): m for m in pkg.modules}
    top = nl(topname or pkg.modules[-1].name)
    prims = _prim_ports()
    exts = {e.name.name: e for e in pkg.ext_modules}
    # parse
    subckts, cur = {}, None
    lines = [l.rstrip() for l in text.splitlines()]
    i = 0
    while i < len(lines):
        l = lines[i].strip()
        if l.upper().startswith(".SUBCKT"):
            cur = {"name": l.split()[1], "ports": [], "insts": []}
            subckts[cur["name"]] = cur
            if i + 1 < len(lines) and lines[i + 1].startswith("+"):
                cur["ports"] = lines[i + 1][1:].split()
                i += 1
        elif l.upper().startswith(".ENDS"):
            cur = None
        elif cur is not None and l and not l.startswith(("*", "+", ".")):
            inst = {"name": l.split()[0], "cont": []}
            j = i + 1
            while j < len(lines) and lines[j].startswith("+"):
                inst["cont"].append(lines[j][1:].split("*")[0].split())
                j += 1
            cur["insts"].append(inst)
            i = j - 1
        i += 1
    uf = UF()
    terms = []

    def walk(sname, path, binding):
        """binding: local flat net name -> global node"""
        pm = mods[sname]
        def node(n):
            if n not in binding:
                binding[n] = (path, "net", n)
            return binding[n]
        for k, inst in enumerate(subckts[sname]["insts"]):
            pinst = pm.instances[k]
            assert inst["name"][1:] == pinst.name, ("instance order/name", inst["name"], pinst.name)
            nets = inst["cont"][0] if inst["cont"] else []
            ipath = path + (pinst.name,)
            which = pinst.module.WhichOneof("to")
            if which == "local":
                child = nl(pinst.module.local)
                cports = subckts[child]["ports"]
                assert len(cports) == len(nets), ("positional arity", pinst.name, cports, nets)
                walk(child, ipath, {cp: node(n) for cp, n in zip(cports, nets)})
            else:
                key = (pinst.module.external.domain, pinst.module.external.name)
                if key[1] in exts and key[0] == exts[key[1]].name.domain:
                    e = exts[key[1]]
                    sw = {s.name: s.width for s in e.signals}
                    plist = [(p.signal, sw[p.signal]) for p in e.ports]
                else:
                    plist = [(p, 1) for p in prims[key]]
                flat = [(p, b) for p, w in plist for b in reversed(range(w))]
                assert len(flat) == len(nets), ("positional arity", pinst.name, flat, nets)
                for (p, b), n in zip(flat, nets):
                    terms.append((ipath, p, b))
                    uf.union((ipath, p, b), node(n))

    ptop = mods[top]
    sw = {s.name: s.width for s in ptop.signals}
    binding = {}
    for p in ptop.ports:
        w = sw[p.signal]
        for b, fn in zip(reversed(range(w)), flat_bits(p.signal, w)):
            terms.append(((), p.signal, b))
            binding[fn] = ((), p.signal, b)
    assert [x for p in ptop.ports for x in flat_bits(p.signal, sw[p.signal])] == subckts[top]["ports"], "top port order"
    walk(top, (), binding)
    groups = {}
    for t in terms:
        groups.setdefault(uf.find(t), set()).add(t)
    return {frozenset(g) for g in groups.values()}
