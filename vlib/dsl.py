"""Design DSL (NOT Hdl21) + independent reference semantics written from the documentation.

ref_nets(top): bit-level union-find over (leaf path, port, bit) terminals and top-port bits.
Semantics (readme 'Connections', 'Slicing', 'Concatenation', 'Bundles'; Pair / InstanceArray
docstrings): bit i of an expression meets bit i of the port; index 0 least significant; Python
list slicing on the list of bits; Concat = list concatenation; array broadcast when widths are
equal, element k gets bits [k*w,(k+1)*w) when the width is n*w; bundles member-by-member by
path; Pair = instances p/n get members p/n, scalars shared; a port reference denotes the
port's own net; a no-connect a fresh net.
"""
from dataclasses import dataclass, field
from typing import Any, Dict, List, Optional, Tuple


# ---------------- expressions
@dataclass(frozen=True)
class Sig:
    name: str


@dataclass(frozen=True)
class Idx:
    e: Any
    i: int


@dataclass(frozen=True)
class Slc:
    e: Any
    a: Optional[int]
    b: Optional[int]
    c: Optional[int] = None


@dataclass(frozen=True)
class Cat:
    parts: tuple


@dataclass(frozen=True)
class PRef:
    inst: str
    port: str


@dataclass(frozen=True)
class NC:
    key: int = 0
    name: Optional[str] = None


@dataclass(frozen=True)
class Bun:
    name: str


@dataclass(frozen=True)
class BRef:
    name: str
    path: tuple


@dataclass(frozen=True)
class Anon:
    members: tuple  # tuple of (member, expr)


@dataclass(frozen=True)
class Orphan:
    """a signal of width w that the module does not own: kind 0 = owned by no module, 1 = owned by a module outside the design,
    2 = owned by a child module of this design (the module-definition attribute used where the instance port was meant)"""
    kind: int
    w: int


class _Open:
    """marker for 'no connection made' (compare with is_open(): copies of the DSL copy the marker)"""

    def __repr__(self):
        return "Open"


Open = _Open()


def is_open(e):
    return isinstance(e, _Open)


# ---------------- definitions
@dataclass
class BundleDef:
    name: str
    sigs: List[Tuple[str, int]]  # (name, width)
    subs: List[Tuple[str, "BundleDef"]] = field(default_factory=list)

    def leaves(self, prefix=()):
        for n, w in self.sigs:
            yield prefix + (n,), w
        for n, b in self.subs:
            yield from b.leaves(prefix + (n,))

    def sub(self, path):
        b = self
        for seg in path:
            d = dict(b.subs)
            if seg in d:
                b = d[seg]
            else:
                return None
        return b

    def leaf_width(self, path):
        b = self.sub(path[:-1])
        if b is None:
            return None
        return dict(b.sigs).get(path[-1])


DIFF = BundleDef("Diff", [("p", 1), ("n", 1)])


@dataclass
class Prim:
    kind: str  # name in h.primitives, e.g. "R", "C", "Mos"
    params: dict
    ports: Tuple[str, ...] = ("p", "n")


@dataclass
class Ext:
    name: str
    ports: List[Tuple[str, int]]
    params: dict = field(default_factory=dict)


@dataclass
class Inst:
    name: str
    of: Any
    conns: Dict[str, Any]
    kind: str = "inst"  # inst | array | pair
    n: int = 1


@dataclass
class Mod:
    name: str
    ports: List[Tuple[str, int]] = field(default_factory=list)
    sigs: List[Tuple[str, int]] = field(default_factory=list)
    buns: List[Tuple[str, BundleDef, bool]] = field(default_factory=list)  # (name, def, is_port)
    insts: List[Inst] = field(default_factory=list)


def port_table(of):
    """{port: ('sig', width) | ('bun', BundleDef)}"""
    if isinstance(of, Prim):
        return {p: ("sig", 1) for p in of.ports}
    if isinstance(of, Ext):
        return {p: ("sig", w) for p, w in of.ports}
    t = {p: ("sig", w) for p, w in of.ports}
    for n, b, is_port in of.buns:
        if is_port:
            t[n] = ("bun", b)
    return t


# ---------------- reference semantics
class UF:
    def __init__(self):
        self.p = {}

    def find(self, x):
        self.p.setdefault(x, x)
        while self.p[x] != x:
            self.p[x] = self.p[self.p[x]]
            x = self.p[x]
        return x

    def union(self, a, b):
        ra, rb = self.find(a), self.find(b)
        if ra != rb:
            self.p[ra] = rb


class Ref:
    def __init__(self, top: Mod):
        self.uf = UF()
        self.terms = []
        self.leaves = []
        self.top = top
        for p, w in top.ports:
            for i in range(w):
                self.terms.append(((), p, i))
                self.uf.find(((), p, i))
        for n, b, is_port in top.buns:
            if is_port:
                for path, w in b.leaves():
                    for i in range(w):
                        k = ((), "_".join((n,) + path), i)  # documented flattened name
                        self.terms.append(k)
                        self.uf.union(k, ((), ("bun", n) + path, i))
        self.walk(top, ())

    def widths(self, mod):
        d = dict(mod.ports)
        d.update(dict(mod.sigs))
        return d

    def bits(self, mod, path, e):
        """list of node keys for a scalar/bus-valued expression"""
        if isinstance(e, Sig):
            return [(path, e.name, i) for i in range(self.widths(mod)[e.name])]
        if isinstance(e, Idx):
            return [self.bits(mod, path, e.e)[e.i]]
        if isinstance(e, Slc):
            return self.bits(mod, path, e.e)[slice(e.a, e.b, e.c)]
        if isinstance(e, Cat):
            out = []
            for p in e.parts:
                out += self.bits(mod, path, p)
            return out
        if isinstance(e, PRef):
            inst = {i.name: i for i in mod.insts}[e.inst]
            kind, w = port_table(inst.of)[e.port]
            assert kind == "sig"
            assert inst.kind == "inst", "scalar port reference to array/pair not modelled"
            return [(path + (e.inst,), e.port, i) for i in range(w)]
        if isinstance(e, Orphan):
            raise AssertionError("orphan signal")
        if isinstance(e, BRef):
            bdef = {n: b for n, b, _ in mod.buns}[e.name]
            w = bdef.leaf_width(e.path)
            assert w is not None, "BRef to sub-bundle used as scalar"
            return [(path, ("bun", e.name) + e.path, i) for i in range(w)]
        raise TypeError(e)

    def members(self, mod, path, e, bdef: BundleDef):
        """{leafpath: bits} for a bundle-valued expression against bundle definition `bdef`"""
        out = {}
        if isinstance(e, (Bun, BRef)):
            # the connected bundle must have the members (paths and widths) the port's bundle has
            decl = {n: b for n, b, _ in mod.buns}[e.name]
            if isinstance(e, BRef):
                decl = decl.sub(e.path)
            assert decl is not None and dict(decl.leaves()) == dict(bdef.leaves()), "bundle members differ"
        if isinstance(e, Bun):
            for lp, w in bdef.leaves():
                out[lp] = [(path, ("bun", e.name) + lp, i) for i in range(w)]
        elif isinstance(e, BRef):
            for lp, w in bdef.leaves():
                out[lp] = [(path, ("bun", e.name) + e.path + lp, i) for i in range(w)]
        elif isinstance(e, Anon):
            md = dict(e.members)
            # an anonymous bundle carries exactly the members of the port's bundle: none missing (KeyError below), none extra
            assert set(md) <= {n for n, _ in bdef.sigs} | {n for n, _ in bdef.subs}, "anonymous bundle has a member the port lacks"
            for n, w in bdef.sigs:
                out[(n,)] = self.bits(mod, path, md[n])
            for n, sb in bdef.subs:
                for lp, b in self.members(mod, path, md[n], sb).items():
                    out[(n,) + lp] = b
        elif isinstance(e, PRef):
            for lp, w in bdef.leaves():
                out[lp] = [(path + (e.inst,), ("bun", e.port) + lp, i) for i in range(w)]
        else:
            raise TypeError(e)
        return out

    def connect_one(self, mod, path, iname, of, conns, k=None, n=1, pair=None):
        ipath = path + (iname,)
        for port, (kind, x) in port_table(of).items():
            e = conns.get(port, Open)
            if is_open(e):
                continue
            if kind == "sig":
                w = x
                if isinstance(e, NC):
                    continue  # private net: nothing to union
                if pair is not None and isinstance(e, (Bun, BRef, Anon)):  # Diff-like: member p / n
                    b = self.members(mod, path, e, DIFF)[(pair,)]
                else:
                    b = self.bits(mod, path, e)
                    if k is not None and len(b) == n * w and n * w != w:
                        b = b[k * w:(k + 1) * w]
                assert len(b) == w, (iname, port, len(b), w)
                for i in range(w):
                    self.uf.union((ipath, port, i), b[i])
            elif isinstance(e, NC):
                continue  # a no-connected bundle port: every member ends on a private net
            else:
                mem = self.members(mod, path, e, x)
                for lp, w in x.leaves():
                    assert len(mem[lp]) == w
                    for i in range(w):
                        self.uf.union((ipath, ("bun", port) + lp, i), mem[lp][i])
        if isinstance(of, Mod):
            self.walk(of, ipath)
        else:
            self.leaves.append((ipath, of.kind if isinstance(of, Prim) else of.name,
                                tuple(sorted((k_, str(v)) for k_, v in (of.params or {}).items()))))
            for port, (kind, w) in port_table(of).items():
                for i in range(w):
                    self.terms.append((ipath, port, i))
                    self.uf.find((ipath, port, i))

    def walk(self, mod: Mod, path):
        for inst in mod.insts:
            if inst.kind == "inst":
                self.connect_one(mod, path, inst.name, inst.of, inst.conns)
            elif inst.kind == "array":
                for k in range(inst.n):
                    self.connect_one(mod, path, f"{inst.name}_{k}", inst.of, inst.conns, k=k, n=inst.n)
            elif inst.kind == "pair":
                for m in ("p", "n"):
                    self.connect_one(mod, path, f"{inst.name}_{m}", inst.of, inst.conns, pair=m)

    def partition(self):
        groups = {}
        for t in self.terms:
            groups.setdefault(self.uf.find(t), set()).add(t)
        return {frozenset(g) for g in groups.values()}


def ref_nets(top: Mod):
    """(partition over terminals, sorted leaf list [(path, device, params)])"""
    r = Ref(top)
    return r.partition(), sorted(r.leaves)


def describe_diff(want, got, limit=4):
    out = []
    for g in sorted(map(sorted, want - got), key=str)[:limit]:
        out.append("want-only " + str(g))
    for g in sorted(map(sorted, got - want), key=str)[:limit]:
        out.append("got-only " + str(g))
    return "; ".join(out)


# ---------------- well-formedness (C02): a direct transcription of the property's list --------------
def _slices_ok(r: "Ref", mod, path, e):
    """(d): every index inside [-w, w), every slice non-empty with explicit bounds inside [-w, w]"""
    if isinstance(e, Idx):
        n = len(r.bits(mod, path, e.e))
        return _slices_ok(r, mod, path, e.e) and -n <= e.i < n
    if isinstance(e, Slc):
        n = len(r.bits(mod, path, e.e))
        if not _slices_ok(r, mod, path, e.e):
            return False
        if any(v is not None and not (-n <= v <= n) for v in (e.a, e.b)):
            return False
        return len(list(range(n))[slice(e.a, e.b, e.c)]) > 0
    if isinstance(e, Cat):
        return all(_slices_ok(r, mod, path, p) for p in e.parts)
    if isinstance(e, Anon):
        return all(_slices_ok(r, mod, path, v) for _, v in e.members)
    return True


def ref_valid(top: Mod):
    """True iff the design is well formed by C02's list (a)-(h)."""
    # (g) instantiation cycle, (h) unnamed / name-clashing modules
    seen, names, stack = {}, {}, set()

    def dfs(m):
        if id(m) in stack:
            return False
        if id(m) in seen:
            return True
        if not m.name:
            return False
        if m.name in names and names[m.name] is not m:
            return False
        names[m.name] = m
        stack.add(id(m))
        for i in m.insts:
            if isinstance(i.of, Mod) and not dfs(i.of):
                return False
        stack.discard(id(m))
        seen[id(m)] = True
        return True

    if not dfs(top):
        return False
    mods = []

    def collect(m):
        if m not in mods:
            mods.append(m)
            for i in m.insts:
                if isinstance(i.of, Mod):
                    collect(i.of)

    collect(top)
    for m in mods:
        inames = [i.name for i in m.insts]
        refd, nc_uses = set(), {}
        for i in m.insts:
            pt = port_table(i.of)
            for p, e in i.conns.items():
                if p not in pt and not is_open(e):
                    return False  # (b) connection names a port that does not exist
                for sub in _walk_expr(e):
                    if isinstance(sub, PRef):
                        tgt = [x for x in m.insts if x.name == sub.inst]
                        if not tgt or sub.port not in port_table(tgt[0].of):
                            return False  # (c) reference to a missing port
                        refd.add((sub.inst, sub.port))
                    if isinstance(sub, NC):
                        nc_uses.setdefault(sub.key, []).append((i.name, p))
                    if isinstance(sub, Orphan):
                        return False  # (e)
        for i in m.insts:
            for p in port_table(i.of):
                e = i.conns.get(p, Open)
                if is_open(e) and (i.name, p) not in refd:
                    return False  # (b) port neither connected nor referenced
                if isinstance(e, NC) and (i.name, p) in refd:
                    return False  # (f)
        # (one no-connect object on several ports is well formed: C01 lists *shared* no-connects among the
        #  valid designs; each such port ends on its own private net)
    # (a) widths, (c) missing bundle members, (d) indices: evaluate the reference semantics
    try:
        r = Ref(top)
    except (AssertionError, KeyError, IndexError, TypeError):
        return False
    for path, m in _paths(top):
        for i in m.insts:
            for p, e in i.conns.items():
                try:
                    if not is_open(e) and not _slices_ok(r, m, path, e):
                        return False
                except (AssertionError, KeyError, IndexError, TypeError):
                    return False
    return True


def _walk_expr(e):
    yield e
    if isinstance(e, (Idx, Slc)):
        yield from _walk_expr(e.e)
    elif isinstance(e, Cat):
        for p in e.parts:
            yield from _walk_expr(p)
    elif isinstance(e, Anon):
        for _, v in e.members:
            yield from _walk_expr(v)


def _paths(top):
    out, seen = [], set()

    def rec(m, path):
        if id(m) in seen:
            return
        seen.add(id(m))
        out.append((path, m))
        for i in m.insts:
            if isinstance(i.of, Mod):
                rec(i.of, path + (i.name,))

    rec(top, ())
    return out
