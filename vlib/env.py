"""Imported first by every harness module.  In symbolic mode pulls in the prelude and exposes
CrossHair helpers; in replay mode (plain /venv python, real pydantic, no CrossHair) the
helpers are identities."""
import os
import sys
import contextlib

MODE = os.environ.get("VERIF_MODE", "replay")
SYM = MODE == "sym"
EXTRA_STUBS = []

if SYM:
    import vlib.prelude  # noqa: F401  must precede hdl21
    from crosshair.tracers import NoTracing, ResumedTracing
    from crosshair.core import realize, deep_realize

    def notrace():
        return NoTracing()

    def stub_str_repr():
        vlib.prelude.FLAGS["stub_str_repr"] = True
        EXTRA_STUBS.append("repr() of a symbolic str returns \"'\" + s + \"'\" unrealised (exact for printable ASCII without quotes/backslash, which the harness pre-condition enforces)")

    def stub_int_format():
        vlib.prelude.FLAGS["stub_int_format"] = True
        EXTRA_STUBS.append("symbolic ints interpolated into f-strings format as '<int>' (kernel harnesses only: they build no names from ints)")

else:

    def stub_int_format():
        pass

    def stub_str_repr():
        pass


    def realize(x):
        return x

    def deep_realize(x):
        return x

    def notrace():
        return contextlib.nullcontext()


def _concrete(x):
    if not SYM:
        return True
    with NoTracing():  # under tracing type() of a proxy int reports `int`
        return type(x) in (int, bool)


def pick(x, lo, hi):
    """Concretise a bounded symbolic int by explicit equality tests: exactly one path per value.
    (crosshair's realize() revisits the same value on several paths: measured 4.5x for three ints.)"""
    if _concrete(x):
        return x
    while lo < hi:  # binary search: log2(hi-lo) decisions per value, one leaf per value
        mid = (lo + hi) // 2
        if x <= mid:
            hi = mid
        else:
            lo = mid + 1
    return lo


def pick_from(x, values):
    if _concrete(x):
        return x
    values = list(values)
    for v in values[:-1]:
        if x == v:
            return v
    return values[-1]


# ---- per-process counters (mutated only inside notrace()) -------------------------------
COUNTS = {"paths": 0, "reached": 0}
CEX = []  # list of {"args": [...], "why": str}


def reached():
    """Called by a harness body at the point where its oracle comparison is evaluated."""
    with notrace():
        COUNTS["reached"] += 1


def reset_all():
    """Bring hdl21's process-global state back to that of a fresh process."""
    with notrace():
        _reset_all()


def _subs(c):
    for s in c.__subclasses__():
        yield s
        yield from _subs(s)


def _reset_all():
    from hdl21.elab.passes.base import ElabPass
    from hdl21.elab.passes import flatten_bundles
    from hdl21.generator import Generator

    for cls in list(_subs(ElabPass)) + [ElabPass]:
        c = getattr(cls, "CLASS_LEVEL_CACHE", None)
        if c is not None:
            c.done.clear()
            c.pending.clear()
    c = getattr(flatten_bundles, "THE_CACHE", None)
    if c is not None:
        for f in ("bundle_insts", "anon_bundles", "flat_bundle_ports"):
            d = getattr(c, f, None)
            if d is not None:
                d.clear()
    if hasattr(Generator, "Cache"):
        Generator.Cache.reset()
