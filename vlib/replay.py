"""Plain-Python replay of a harness body on concrete arguments: no CrossHair, real pydantic,
real decimal.  usage: python -m vlib.replay <harness module> <function> <args.json> [--trace]
Prints one JSON line: {"ok": bool, "why": str, "functions": [...]}."""
import os
import sys
import json

os.environ["VERIF_MODE"] = "replay"
sys.path.insert(0, "/verif")
sys.setrecursionlimit(10000)


def main():
    modname, fname, argfile = sys.argv[1:4]
    trace = "--trace" in sys.argv
    args = json.load(open(argfile))
    import importlib

    mod = importlib.import_module(modname)
    f = getattr(mod, fname)
    h = getattr(f, "__harness__", None)
    body = h.real_twin if (h is not None and getattr(h, "real_twin", None)) else f
    funcs = set()
    if trace:
        def prof(frame, event, arg):
            if event == "call":
                fn = frame.f_code.co_filename
                root = os.environ.get("VERIF_REPO", "/repo") + "/"
                if fn.startswith(root):
                    funcs.add(fn[len(root):] + ":" + frame.f_code.co_qualname)
        sys.setprofile(prof)
    try:
        ok = bool(body(*args))
        why = "" if ok else "oracle comparison returned False"
    except Exception as e:
        ok = False
        why = "raised " + type(e).__name__ + ": " + str(e)[:1500]
    finally:
        sys.setprofile(None)
    from vlib import env
    print("\n@@REPLAY " + json.dumps({"ok": ok, "why": why, "functions": sorted(funcs),
                                      "reached": env.COUNTS["reached"]}))


if __name__ == "__main__":
    main()
