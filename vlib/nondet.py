"""NondetSet: stands in for the built-in `set` inside hdl21's connectable modules.  Insertion ordered;
ITERATION order is drawn from a choice vector (symbolic under CrossHair): a Fisher-Yates walk where
step k takes element (choice mod remaining).  Any order of a small identity-/str-hashed set is reachable
for some allocation history or PYTHONHASHSEED, so 'for all choice vectors' covers 'for all processes'."""
import sys
from collections.abc import MutableSet

CHOICES = []
POS = [0]
TARGETS = ("hdl21.signal", "hdl21.slice", "hdl21.concat", "hdl21.portref", "hdl21.noconn", "hdl21.bundle")


def set_choices(cs):
    CHOICES[:] = list(cs)
    POS[0] = 0


def _next():
    if POS[0] < len(CHOICES):
        c = CHOICES[POS[0]]
        POS[0] += 1
        return c
    return 0


class NondetSet(MutableSet):
    """(MutableSet supplies | & - ^ <= == isdisjoint ... on top of the primitives below)"""

    @classmethod
    def _from_iterable(cls, it):
        return cls(it)

    def __init__(self, it=()):
        self._items = []
        for x in it:
            self.add(x)

    def add(self, x):
        if x not in self._items:
            self._items.append(x)

    def remove(self, x):
        self._items.remove(x)

    def discard(self, x):
        if x in self._items:
            self._items.remove(x)

    def pop(self):
        return self._items.pop()

    def copy(self):
        return NondetSet(self._items)

    def update(self, it):
        for x in it:
            self.add(x)

    def __contains__(self, x):
        return x in self._items

    def __len__(self):
        return len(self._items)

    def __bool__(self):
        return bool(self._items)

    def __iter__(self):
        rest = list(self._items)
        out = []
        while len(rest) > 1:
            c = _next()
            k = c % len(rest)
            out.append(rest.pop(k))
        out.extend(rest)
        return iter(out)

    def __repr__(self):
        return f"NondetSet({self._items})"


def targets():
    """the connectable modules, plus every loaded hdl21 module whose CURRENT source calls `set(` (regenerated per run)"""
    import hdl21  # noqa: F401
    out = list(TARGETS)
    for n, m in list(sys.modules.items()):
        if n.startswith("hdl21.") and n not in out and ".tests" not in n and getattr(m, "__file__", None):
            try:
                src = open(m.__file__).read()
            except OSError:
                continue
            if "set(" in src.replace("_set(", "").replace("setattr(", ""):
                out.append(n)
    return out


INSTALLED = []


def install():
    INSTALLED[:] = targets()
    for n in INSTALLED:
        sys.modules[n].set = NondetSet


def uninstall():
    for n in INSTALLED or TARGETS:
        m = sys.modules.get(n)
        if m is not None and "set" in vars(m):
            del m.set
