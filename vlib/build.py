"""DSL -> Hdl21 objects through the public API.  style: 'proc' (Module()/add/connect),
'class' (@h.module-like class body via type()), 'gen' (inside an @h.generator)."""
import hdl21 as h
from vlib import env
from vlib.dsl import *


def build_bundle(bd: BundleDef, cache):
    if id(bd) in cache:
        return cache[id(bd)]
    if bd is DIFF or bd.name == "Diff":
        cache[id(bd)] = h.Diff
        return h.Diff
    b = h.Bundle(name=bd.name)
    for n, w in bd.sigs:
        b.add(h.Signal(name=n, width=w))
    for n, sb in bd.subs:
        b.add(h.BundleInstance(name=n, of=build_bundle(sb, cache)))
    cache[id(bd)] = b
    return b


def prim_params(of):
    """parameter values are realised before they reach pydantic-validated parameter classes (DESIGN 2/E1.1)"""
    return {k: (env.pick(v, -16, 64) if isinstance(v, int) else env.realize(v)) for k, v in of.params.items()}


class Builder:
    def __init__(self, style="proc", setattr_conns=False, dict_anon=False, flip=False, copies=False):
        self.mcache, self.bcache, self.ecache = {}, {}, {}
        self.copies = copies        # bundle instances of one type are made as copies of one another: `n * B()`, `flipped(flipped(b))`
        self.style = style
        self.setattr_conns = setattr_conns
        self.dict_anon = dict_anon  # anonymous bundles written in dict shorthand
        self.flip = flip            # every bundle instance of a module is created flipped (connectivity must not care)

    def target(self, of):
        if isinstance(of, Mod):
            return self.bmod(of)
        if isinstance(of, Prim):
            return getattr(h.primitives, of.kind)(**prim_params(of))
        if isinstance(of, Ext):
            if id(of) not in self.ecache:
                kw = {} if of.params is None else {"paramtype": dict}
                self.ecache[id(of)] = h.ExternalModule(
                    name=of.name, port_list=[h.Port(name=p, width=w) for p, w in of.ports], **kw)
            if of.params is None:  # parameter-less external module (default param class)
                return self.ecache[id(of)]()
            return self.ecache[id(of)](prim_params(of))
        raise TypeError(of)

    def expr(self, m, e, ncs):
        if isinstance(e, Sig):
            return m.get(e.name)
        if isinstance(e, Idx):
            return self.expr(m, e.e, ncs)[e.i]
        if isinstance(e, Slc):
            return self.expr(m, e.e, ncs)[e.a:e.b:e.c]
        if isinstance(e, Cat):
            return h.Concat(*[self.expr(m, p, ncs) for p in e.parts])
        if isinstance(e, PRef):
            return getattr(m.get(e.inst), e.port)
        if isinstance(e, NC):
            if e.key not in ncs:
                ncs[e.key] = h.NoConn(name=e.name)
            return ncs[e.key]
        if isinstance(e, Bun):
            return m.get(e.name)
        if isinstance(e, BRef):
            r = m.get(e.name)
            for seg in e.path:
                r = getattr(r, seg)
            return r
        if isinstance(e, Orphan):
            if e.kind == 0:
                return h.Signal(name="orph", width=e.w)
            if e.kind == 2:
                # owned by a module of THIS design that was built (and will be elaborated) before its user: a child's port / signal
                for mm in self.mcache.values():
                    if mm is not m:
                        for sig in list(mm.ports.values()) + list(mm.signals.values()):
                            if sig.width == e.w:
                                return sig
            other = h.Module(name="Other")
            return other.add(h.Signal(name="stolen", width=e.w))
        if isinstance(e, Anon):
            d = {k: self.expr(m, v, ncs) for k, v in e.members}
            return d if self.dict_anon else h.AnonymousBundle(**d)
        raise TypeError(e)

    def fill(self, m, md: Mod):
        for n, w in md.ports:
            m.add(h.Port(name=n, width=w))
        for n, w in md.sigs:
            m.add(h.Signal(name=n, width=w))
        if self.copies:
            groups = {}
            for n, bd, is_port in md.buns:
                groups.setdefault(id(bd), []).append((n, bd, is_port))
            made = {}
            for grp in groups.values():
                proto = h.BundleInstance(of=build_bundle(grp[0][1], self.bcache))
                objs = (len(grp) * proto) if len(grp) > 1 else [h.flipped(h.flipped(proto))]
                for (n, bd, is_port), bi in zip(grp, objs):
                    bi.name, bi.port = n, is_port
                    made[n] = bi
            for n, bd, is_port in md.buns:
                m.add(made[n])
        for n, bd, is_port in ([] if self.copies else md.buns):
            m.add(h.BundleInstance(name=n, of=build_bundle(bd, self.bcache), port=is_port, flipped=self.flip))
        for inst in md.insts:  # create all instances first so port references can point forward
            t = self.target(inst.of)
            if inst.kind == "inst":
                m.add(h.Instance(name=inst.name, of=t))
            elif inst.kind == "array":
                m.add(h.InstanceArray(name=inst.name, of=t, n=inst.n))
            elif inst.kind == "pair":
                m.add(h.Pair(name=inst.name, of=t))
        ncs = {}
        for inst in md.insts:
            hi = m.get(inst.name)
            for port, e in inst.conns.items():
                if is_open(e):
                    continue
                if self.setattr_conns:
                    setattr(hi, port, self.expr(m, e, ncs))
                else:
                    hi.connect(port, self.expr(m, e, ncs))
        return m

    def class_body(self, md: Mod):
        """class-style definition: the attributes are collected in a class body and handed to `h.module`;
        connections are made by call syntax `inst(port=conn, ...)`"""
        d = {}
        for n, w in md.ports:
            d[n] = h.Port(width=w)
        for n, w in md.sigs:
            d[n] = h.Signal(width=w)
        for n, bd, is_port in md.buns:
            d[n] = h.BundleInstance(of=build_bundle(bd, self.bcache), port=is_port)
        for inst in md.insts:
            t = self.target(inst.of)
            if inst.kind == "inst":
                d[inst.name] = h.Instance(of=t)
            elif inst.kind == "array":
                d[inst.name] = h.InstanceArray(of=t, n=inst.n)
            elif inst.kind == "pair":
                d[inst.name] = h.Pair(of=t)

        class _Ns:  # name lookup for `expr` before the module exists
            def get(self_, name):
                return d[name]

        ncs = {}
        for inst in md.insts:
            conns = {port: self.expr(_Ns(), e, ncs) for port, e in inst.conns.items() if not is_open(e)}
            if conns:
                d[inst.name](**conns)
        cls = type(env.realize(md.name), (), {})
        for k, v in d.items():
            setattr(cls, k, v)
        return h.module(cls)

    def bmod(self, md: Mod):
        if id(md) in self.mcache:
            return self.mcache[id(md)]
        if self.style == "gen":
            builder = self

            def genfunc(params: h.HasNoParams) -> h.Module:
                return builder.fill(h.Module(), md)

            genfunc.__name__ = genfunc.__qualname__ = md.name  # the generated module takes the generator's name
            m = h.generator(genfunc)()
        elif self.style == "class":
            m = self.class_body(md)
        else:
            m = h.Module(name=md.name) if md.name else h.Module()
            self.mcache[id(md)] = m  # registered before filling, so that a cyclic DSL builds a cyclic design
            self.fill(m, md)
        self.mcache[id(md)] = m
        return m


def build(top: Mod, style="proc", setattr_conns=False, dict_anon=False, flip=False, copies=False):
    return Builder(style, setattr_conns, dict_anon, flip, copies).bmod(top)
