"""DSL -> Hdl21 objects through the public API.  style: 'proc' (Module()/add/connect),
'class' (@h.module-like class body via type()), 'gen' (inside an @h.generator)."""
import hdl21 as h
from vlib.dsl import *


def build_bundle(bd: BundleDef, cache):
    if id(bd) in cache:
        return cache[id(bd)]
    if bd is DIFF or bd.name == "Diff":
        cache[id(bd)] = h.Diff
        return h.Diff
    b = h.Bundle(name=bd.name)
    for n, w in bd.sigs:
        b.add(h.Signal(name=n, width=w))
    for n, sb in bd.subs:
        b.add(h.BundleInstance(name=n, of=build_bundle(sb, cache)))
    cache[id(bd)] = b
    return b


def prim_params(of: Prim):
    return dict(of.params)


class Builder:
    def __init__(self, style="proc", setattr_conns=False):
        self.mcache, self.bcache, self.ecache = {}, {}, {}
        self.style = style
        self.setattr_conns = setattr_conns

    def target(self, of):
        if isinstance(of, Mod):
            return self.bmod(of)
        if isinstance(of, Prim):
            return getattr(h.primitives, of.kind)(**prim_params(of))
        if isinstance(of, Ext):
            if id(of) not in self.ecache:
                self.ecache[id(of)] = h.ExternalModule(
                    name=of.name, port_list=[h.Port(name=p, width=w) for p, w in of.ports], paramtype=dict)
            return self.ecache[id(of)](dict(of.params))
        raise TypeError(of)

    def expr(self, m, e, ncs):
        if isinstance(e, Sig):
            return m.get(e.name)
        if isinstance(e, Idx):
            return self.expr(m, e.e, ncs)[e.i]
        if isinstance(e, Slc):
            return self.expr(m, e.e, ncs)[e.a:e.b:e.c]
        if isinstance(e, Cat):
            return h.Concat(*[self.expr(m, p, ncs) for p in e.parts])
        if isinstance(e, PRef):
            return getattr(m.get(e.inst), e.port)
        if isinstance(e, NC):
            if e.key not in ncs:
                ncs[e.key] = h.NoConn(name=e.name)
            return ncs[e.key]
        if isinstance(e, Bun):
            return m.get(e.name)
        if isinstance(e, BRef):
            r = m.get(e.name)
            for seg in e.path:
                r = getattr(r, seg)
            return r
        if isinstance(e, Anon):
            return h.AnonymousBundle(**{k: self.expr(m, v, ncs) for k, v in e.members})
        raise TypeError(e)

    def fill(self, m, md: Mod):
        for n, w in md.ports:
            m.add(h.Port(name=n, width=w))
        for n, w in md.sigs:
            m.add(h.Signal(name=n, width=w))
        for n, bd, is_port in md.buns:
            m.add(h.BundleInstance(name=n, of=build_bundle(bd, self.bcache), port=is_port))
        for inst in md.insts:  # create all instances first so port references can point forward
            t = self.target(inst.of)
            if inst.kind == "inst":
                m.add(h.Instance(name=inst.name, of=t))
            elif inst.kind == "array":
                m.add(h.InstanceArray(name=inst.name, of=t, n=inst.n))
            elif inst.kind == "pair":
                m.add(h.Pair(name=inst.name, of=t))
        ncs = {}
        for inst in md.insts:
            hi = m.get(inst.name)
            for port, e in inst.conns.items():
                if e is Open:
                    continue
                if self.setattr_conns:
                    setattr(hi, port, self.expr(m, e, ncs))
                else:
                    hi.connect(port, self.expr(m, e, ncs))
        return m

    def bmod(self, md: Mod):
        if id(md) in self.mcache:
            return self.mcache[id(md)]
        if self.style == "gen":
            builder = self

            @h.generator
            def Gen(params: h.HasNoParams) -> h.Module:
                return builder.fill(h.Module(), md)

            Gen.name = md.name  # readable, unique per DSL module
            Gen.func.__name__ = md.name
            m = Gen()
        else:
            m = self.fill(h.Module(name=md.name), md)
        self.mcache[id(md)] = m
        return m


def build(top: Mod, style="proc", setattr_conns=False):
    return Builder(style, setattr_conns).bmod(top)
