"""Harness prelude for *symbolic* runs only (never imported by a replay).

This file IS the list of deviations from plain CPython + plain CrossHair under which a
"Confirmed over all paths" verdict is claimed (DESIGN.md appendix A).  It must be imported
before `hdl21`.
"""
import dataclasses
import sys

assert "hdl21" not in sys.modules, "prelude must be imported before hdl21"

# --- A1. pydantic validation stub ---------------------------------------------------
import pydantic.dataclasses as _pdc

_orig_dataclass = _pdc.dataclass
NOVALIDATE = {
    "hdl21.signal",
    "hdl21.slice",
    "hdl21.portref",
    "hdl21.noconn",
    "hdl21.role",
    "hdl21.props",
}


def _dataclass(_cls=None, *, config=None, **kw):
    def wrap(c):
        if c.__module__ in NOVALIDATE or c.__module__.startswith("hdl21.elab"):
            kw2 = {k: v for k, v in kw.items() if k != "validate_on_init"}
            return dataclasses.dataclass(c, **kw2)
        return _orig_dataclass(c, config=config, **kw)

    return wrap if _cls is None else wrap(_cls)


_pdc.dataclass = _dataclass

# --- A2. CrossHair work-arounds -------------------------------------------------------
import crosshair.core as _cc
import crosshair.core_and_libs  # noqa: F401  (registers all patches)
from crosshair.tracers import NoTracing
from crosshair.simplestructs import ShellMutableMap

_cs = _cc.consider_shortcircuit


def _no_shortcircuit(fn, sig, bound, subconditions, allow_interpretation):
    if not allow_interpretation:
        return _cs(fn, sig, bound, subconditions, allow_interpretation)
    return None


_cc.consider_shortcircuit = _no_shortcircuit


def _smm_copy(self):
    m = ShellMutableMap(self._inner)
    m._mutations = self._mutations.copy()
    m._len = self._len
    return m


ShellMutableMap.copy = _smm_copy
ShellMutableMap.__copy__ = _smm_copy

_fmt = _cc._PATCH_REGISTRATIONS[format]
# kernel harnesses that build no names from symbolic ints may also stub int formatting (error messages)
FLAGS = {"stub_int_format": False}


def _format(obj, format_spec=""):
    with NoTracing():
        t = type(obj)
        mod = getattr(t, "__module__", "") or ""
        stub = mod.startswith("hdl21") or t in (slice, tuple, list, dict, set, frozenset)
        name = t.__name__
        if FLAGS["stub_int_format"] and name.startswith("Symbolic") and "Int" in name:
            stub, name = True, "int"
    if stub:
        return "<" + name + ">"
    return _fmt(obj, format_spec)


_cc._PATCH_REGISTRATIONS[format] = _format

# optional stub (C09 only): repr() of a symbolic str returns "'" + s + "'" without realising it. Exact for the
# strings the harness admits under this flag (printable ASCII without quotes and backslashes); the harness
# pre-condition enforces that alphabet. Other strings go through a separate, enumerated partition.
_repr = _cc._PATCH_REGISTRATIONS[repr]
from crosshair.libimpl.builtinslib import AnySymbolicStr as _AnySymbolicStr


def _repr_stub(obj):
    with NoTracing():
        sym = FLAGS["stub_str_repr"] and isinstance(obj, _AnySymbolicStr)
    if sym:
        return "'" + obj + "'"
    return _repr(obj)


FLAGS["stub_str_repr"] = False
_cc._PATCH_REGISTRATIONS[repr] = _repr_stub

# --- A2.5 CrossHair 0.0.110's `bytes` patch rejects keyword arguments (hdl21.params: bytes(s, encoding="utf-8"))
_bytes = _cc._PATCH_REGISTRATIONS[bytes]


def _bytes_kw(*a, **kw):
    if kw:
        from crosshair.core import realize as _realize
        args = [_realize(x) for x in a]
        with NoTracing():
            return bytes(*args, **kw)
    return _bytes(*a)


_cc._PATCH_REGISTRATIONS[bytes] = _bytes_kw

STUBS = [
    "pydantic dataclass validation replaced by stdlib dataclasses for hdl21.signal/slice/portref/noconn/role/props/elab.* (inputs assumed well-typed)",
    "CrossHair short-circuiting of contracted builtins disabled",
    "ShellMutableMap.copy/__copy__ repaired (CrossHair 0.0.110 bug)",
    "bytes(x, encoding=...) realises x (CrossHair's bytes patch takes no keywords)",
    "f-string formatting of hdl21 objects and bare containers returns '<TypeName>' (error text not observed symbolically)",
]
