"""E2: exec the REAL source text of /repo/hdl21/prefix.py (read on every run) in a namespace whose
`decimal` is vlib.mdec and whose pydantic is a field-storing stub.  Every statement executed is
the repository's; only the number type underneath is a model."""
import types
import builtins
import dataclasses
from vlib import mdec

import os
PREFIX_PY = os.environ.get("VERIF_REPO", "/repo") + "/hdl21/prefix.py"


def load_prefix(path=PREFIX_PY):
    src = open(path).read()
    fake_decimal = types.ModuleType("decimal")
    for k in ("Decimal", "InvalidOperation", "getcontext", "localcontext", "Context", "ROUND_HALF_EVEN"):
        setattr(fake_decimal, k, getattr(mdec, k))

    class BaseModel:
        def __init__(self, **kw):
            cls = type(self)
            ann = getattr(cls, "__annotations__", {})
            for name in ann:
                if name in kw:
                    object.__setattr__(self, name, kw[name])
                elif name in cls.__dict__:
                    object.__setattr__(self, name, cls.__dict__[name])
                else:
                    raise TypeError(f"missing field {name}")
            extra = set(kw) - set(ann)
            if extra:
                raise TypeError(f"unexpected fields {extra}")

    fake_pyd = types.ModuleType("pydantic")
    fake_pyd.BaseModel = BaseModel
    fake_pyd.Field = lambda default=None, **k: default
    fake_pdc = types.ModuleType("pydantic.dataclasses")
    fake_pdc.dataclass = dataclasses.dataclass
    fake_pyd.dataclasses = fake_pdc
    table = {"decimal": fake_decimal, "pydantic": fake_pyd, "pydantic.dataclasses": fake_pdc}
    real_import = builtins.__import__

    def imp(name, globals=None, locals=None, fromlist=(), level=0):
        if level == 0 and name in table:
            return table[name]
        return real_import(name, globals, locals, fromlist, level)

    class _IntMeta(type):
        def __instancecheck__(cls, obj):
            return isinstance(obj, int)

        def __subclasscheck__(cls, sub):
            return issubclass(sub, int)

    class int_(metaclass=_IntMeta):
        """`int` inside prefix.py-under-model: int(MDec) must call MDec.__int__ directly, because CPython's
        C-level int() rejects the proxy ints CrossHair returns; isinstance(x, int) is unchanged."""

        def __new__(cls, x=0, *a):
            if isinstance(x, mdec.MDec):
                return x.__int__()
            return int(x, *a)

    class _FloatMeta(type):
        def __instancecheck__(cls, obj):
            return isinstance(obj, float)

        def __subclasscheck__(cls, sub):
            return issubclass(sub, float)

    class float_(metaclass=_FloatMeta):
        """`float` inside prefix.py-under-model: float(MDec) returns FloatOf(exact value) = 'the correctly
        rounded double of this exact decimal' (CPython contract for float(Decimal)); any further float
        arithmetic on it (double rounding) is outside the model and raises ModelUnsupported."""

        def __new__(cls, x=0.0, *a):
            if isinstance(x, mdec.MDec):
                return mdec.FloatOf(x)
            return float(x, *a)

    class HKey:
        """`hash(x)` inside prefix.py-under-model returns a key whose equality is value equality of what was
        hashed (CPython contract: numeric hashes are value based; collisions only make more hashes equal).
        Avoids realising the symbolic mantissa, which a real integer hash would force."""

        def __init__(self, v):
            self.v = v

        def __eq__(self, o):
            return isinstance(o, HKey) and _heq(self.v, o.v)

        def __ne__(self, o):
            return not self.__eq__(o)

        __hash__ = None

    def _heq(x, y):
        if isinstance(x, tuple) or isinstance(y, tuple):
            if not (isinstance(x, tuple) and isinstance(y, tuple)) or len(x) != len(y):
                return False
            for i in range(len(x)):
                if not _heq(x[i], y[i]):
                    return False
            return True
        return x == y

    def mhash(x):
        if isinstance(x, (mdec.MDec, tuple)):
            return HKey(x)
        return HKey(x)

    g = {"__name__": "hdl21_prefix_under_model", "int": int_, "float": float_, "hash": mhash,
         "__builtins__": {**builtins.__dict__, "__import__": imp}}
    exec(compile(src, path, "exec"), g)
    return g
