"""Orchestrator: ./check <ID> [--tier quick|thorough]

exit 0: property held on everything explored (inconclusive parts itemised, never claimed)
exit 1: replay-confirmed violation not listed in known_findings.json (VIOLATION line printed)
exit 2: the check could not run at all
"""
import os
import sys
import glob
import json
import time
import random
import hashlib
import importlib
import subprocess
from concurrent.futures import ThreadPoolExecutor

ROOT = "/verif"
sys.path.insert(0, ROOT)
os.environ["VERIF_MODE"] = "replay"
from vlib.spec import REGISTRY, Harness  # noqa: E402

VPY = os.path.join(ROOT, ".venv/bin/python")
PLAINPY = "/venv/bin/python"
NPROC = int(os.environ.get("VERIF_JOBS", "0")) or min(16, os.cpu_count() or 4)


def log(*a):
    print(*a, flush=True)


def load_known():
    p = os.path.join(ROOT, "known_findings.json")
    if not os.path.exists(p):
        return []
    return json.load(open(p)).get("findings", [])


def load_harnesses(pid):
    mods = sorted(glob.glob(os.path.join(ROOT, "harness", pid.lower() + "*.py")))
    for m in mods:
        importlib.import_module("harness." + os.path.basename(m)[:-3])
    # riders: harnesses registered under another property's module but serving this one
    for m in sorted(glob.glob(os.path.join(ROOT, "harness", "*.py"))):
        name = os.path.basename(m)[:-3]
        if name.startswith("_") or name.startswith(pid.lower()):
            continue
        src = open(m).read()
        if f'"{pid}"' in src:
            importlib.import_module("harness." + name)
    return REGISTRY.get(pid, [])


def gen_partfile(h: Harness, tier, workdir, known):
    t = h.tier(tier)
    pres = list(t["pre"]) + list(h.pre)
    for k in known:
        if k.get("harness") == h.name and k.get("exclude"):
            pres.append("not (" + k["exclude"] + ")")
    lines = ["import sys", "sys.path.insert(0, '/verif')", "from vlib import env",
             "from vlib.runtime import run_body", f"import {h.module} as _hm",
             "globals().update({k: v for k, v in vars(_hm).items() if not k.startswith('__')})  # names used by pre-conditions",
             f"_verif_body = _hm.{h.name}", ""]
    names = []
    for tag, extra in t["parts"]:
        fn = f"{h.name}__{tag}"
        names.append(fn)
        lines += [f"def {fn}({h.args}) -> bool:", '    """']
        # the partition clause goes FIRST: CrossHair evaluates pre-conditions in order and forks on
        # each comparison, so the most restrictive clause must prune before the general ones fork
        if h.pre_order == "base_first":
            lines += ["    pre: " + p for p in list(h.pre) + list(t["pre"])]
            lines += ["    pre: " + p for p in pres[len(h.pre) + len(t["pre"]):]]  # known-finding exclusions
            lines += ["    pre: " + extra]
        else:
            lines += ["    pre: " + extra]
            lines += ["    pre: " + p for p in pres]
        lines += ["    post: _", '    """',
                  f"    return run_body(_verif_body, ({', '.join(h.argnames)},))", ""]
    path = os.path.join(workdir, f"part_{h.name}.py")
    with open(path, "w") as f:
        f.write("\n".join(lines))
    return path, names, pres


BUDGET = {"t0": None, "wall": None}  # thorough tier: stop scheduling new partitions once the wall budget is used


def run_worker(job):
    partfile, fn, ctime, outjson = job
    if BUDGET["wall"] is not None and time.time() - BUDGET["t0"] > BUDGET["wall"]:
        return {"func": fn, "skipped": True, "messages": [], "error": None, "paths": 0, "reached": 0, "smt_queries": 0,
                "smt_time_s": 0.0, "cex": [], "wall_s": 0.0, "stubs": []}
    ptime = max(20.0, ctime / 4)
    cmd = [VPY, "-m", "vlib.worker", partfile, fn, str(ctime), str(ptime), outjson]
    t0 = time.time()
    try:
        p = subprocess.run(cmd, cwd=ROOT, capture_output=True, text=True, timeout=ctime * 1.5 + 120)
        err = p.stderr[-2000:] if p.returncode != 0 else ""
    except subprocess.TimeoutExpired:
        err = "worker hard timeout"
    if os.path.exists(outjson):
        r = json.load(open(outjson))
    else:
        r = {"func": fn, "messages": [], "error": err or "no output", "paths": 0, "reached": 0,
             "smt_queries": 0, "smt_time_s": 0.0, "cex": [], "wall_s": round(time.time() - t0, 2), "stubs": []}
    return r


def replay(h: Harness, args, workdir, trace=False):
    key = hashlib.sha1(json.dumps([h.name, args], sort_keys=True, default=str).encode()).hexdigest()[:12]
    af = os.path.join(workdir, f"args_{h.name}_{key}.json")
    json.dump(args, open(af, "w"))
    cmd = [PLAINPY, "-m", "vlib.replay", h.module, h.name, af] + (["--trace"] if trace else [])
    R = os.environ.get("VERIF_REPO", "/repo")
    env = dict(os.environ, VERIF_MODE="replay",
               PYTHONPATH=f"/verif:{R}:{R}/pdks/Sky130:{R}/pdks/Gf180:{R}/pdks/Asap7")
    try:
        p = subprocess.run(cmd, cwd=ROOT, capture_output=True, text=True, timeout=600, env=env)
    except subprocess.TimeoutExpired:
        return {"ok": None, "why": "replay timeout", "functions": []}, key
    for line in p.stdout.splitlines()[::-1]:
        if line.startswith("@@REPLAY "):
            return json.loads(line[len("@@REPLAY "):]), key
    return {"ok": None, "why": "replay crashed: " + (p.stderr or p.stdout)[-1500:], "functions": []}, key


def matches(k, h, args):
    if k.get("harness") != h.name or not k.get("exclude"):
        return False
    try:
        return bool(eval(k["exclude"], {}, dict(zip(h.argnames, args))))
    except Exception:
        return False


def main():
    argv = sys.argv[1:]
    pid = argv[0]
    tier = os.environ.get("VERIF_TIER", "quick")
    if "--tier" in argv:
        tier = argv[argv.index("--tier") + 1]
    seed = int(os.environ.get("VERIF_SEED", "0") or 0)
    only = argv[argv.index("--only") + 1].split(",") if "--only" in argv else None
    t_start = time.time()
    try:
        harnesses = load_harnesses(pid)
    except Exception:
        import traceback
        traceback.print_exc()
        log(f"HARNESS-ERROR property={pid} cannot import harnesses / hdl21")
        return 2
    if only:
        harnesses = [h for h in harnesses if h.name in only]
    if not harnesses:
        log(f"HARNESS-ERROR property={pid} no harnesses")
        return 2
    known = [k for k in load_known() if k.get("property") == pid]
    workdir = os.path.join(ROOT, ".work", pid + "_" + tier + os.environ.get("VERIF_WORKTAG", ""))
    subprocess.run(["rm", "-rf", workdir])
    os.makedirs(workdir, exist_ok=True)
    os.makedirs(os.path.join(ROOT, "replays"), exist_ok=True)
    os.makedirs(os.path.join(ROOT, "evidence"), exist_ok=True)

    violations, known_lines, inconclusive, samples, unconfirmed = [], [], [], [], []
    functions = set()
    obligations = discharged = paths = reached_total = smt_n = 0
    smt_t = 0.0
    per_harness = {}
    stubs = set()
    concrete_seeds = {"run": 0, "failed": 0}

    def handle_candidate(h, args, why, source):
        """replay; classify as known finding / violation / unconfirmed"""
        if args is None:
            inconclusive.append(f"{h.name}: counterexample could not be realised ({why[:120]})")
            return
        r, key = replay(h, args, workdir)
        if r["ok"] is False:
            for k in known:
                if matches(k, h, args):
                    line = f"KNOWN-FINDING: property={pid} {k['what']}"
                    if line not in known_lines:
                        known_lines.append(line)
                    return
            path = os.path.join(ROOT, "replays", f"{pid}-{h.name}-{key}.json")
            json.dump({"property": pid, "harness": h.name, "module": h.module, "args": args,
                       "argnames": h.argnames, "observed": r["why"], "found_by": source,
                       "replay_cmd": f"PYTHONPATH=/verif:/repo {PLAINPY} -m vlib.replay {h.module} {h.name} <this file's args as json list>"},
                      open(path, "w"), indent=1)
            if not any(v[0] == h.name and v[1] == args for v in violations):
                violations.append((h.name, args, r["why"], path))
        elif r["ok"] is True:
            unconfirmed.append({"harness": h.name, "args": args, "symbolic_verdict": why[:300]})
            inconclusive.append(f"{h.name}{tuple(args)}: symbolic counterexample did not reproduce in plain Python (tool/model artefact)")
        else:
            inconclusive.append(f"{h.name}: replay failed to run: {r['why'][:200]}")

    # 1. known findings: does each listed witness still fail?
    for k in known:
        hs = [h for h in harnesses if h.name == k.get("harness")]
        if not hs or k.get("witness") is None:
            continue
        r, _ = replay(hs[0], k["witness"], workdir)
        if r["ok"] is False:
            known_lines.append(f"KNOWN-FINDING: property={pid} {k['what']}")
        elif r["ok"] is True:
            log(f"NOTE: listed finding no longer reproduces: {k['what']}")

    # 2. concrete sample per harness: sanity + function trace
    gate_failed = False
    for h in harnesses:
        if h.kind == "smt":
            continue
        if h.gate:
            r, _ = replay(h, list(h.sample), workdir)
            if r["ok"] is not True:
                gate_failed = True
                inconclusive.append(f"{h.name}: model/oracle validation gate failed ({r['why'][:300]}): no verdict from this run")
            else:
                samples.append({"harness": h.name, "kind": "validation gate passed"})
            continue
        if h.sample is not None and (h.sample != () or not h.argnames):
            r, _ = replay(h, list(h.sample), workdir, trace=True)
            functions.update(r.get("functions", []))
            if h.concrete:
                concrete_seeds["run"] += 1
            if r["ok"] is False:
                if h.concrete:
                    concrete_seeds["failed"] += 1
                handle_candidate(h, list(h.sample), r["why"], "concrete sample")
            elif r["ok"] is None:
                inconclusive.append(f"{h.name}: sample replay did not run: {r['why'][:300]}")
            else:
                samples.append({"harness": h.name, "args": list(h.sample), "kind": "concrete sample, passed"})

    # 3. symbolic partitions
    jobs = []
    jobinfo = {}
    for h in harnesses:
        if h.concrete or h.kind == "smt" or h.gate or gate_failed:
            continue
        t = h.tier(tier)
        partfile, names, pres = gen_partfile(h, tier, workdir, known)
        per_harness[h.name] = {"partitions": len(names), "confirmed": 0, "paths": 0, "reached": 0,
                               "pre": pres, "bounds": h.bounds, "generalises": h.generalises,
                               "timeout_s": t["timeout"]}
        cap = 600 if tier == "thorough" else t["timeout"]
        for fn in names:
            out = os.path.join(workdir, fn + ".json")
            jobs.append((partfile, fn, min(t["timeout"], cap), out))
            jobinfo[fn] = h
    rng = random.Random(seed)
    rng.shuffle(jobs)  # VERIF_SEED rotates which partitions come first when the thorough box exceeds the wall budget
    if tier != "thorough":
        jobs.sort(key=lambda j: -j[2])  # long ones first
    else:
        BUDGET["t0"], BUDGET["wall"] = time.time(), float(os.environ.get("VERIF_BUDGET_S", "1200"))
        # every harness gets its turn, however many partitions the others have: round-robin over the (shuffled) per-harness queues
        queues = {}
        for j in jobs:
            queues.setdefault(jobinfo[j[1]].name, []).append(j)
        jobs = []
        while any(queues.values()):
            for q in queues.values():
                if q:
                    jobs.append(q.pop(0))
    with ThreadPoolExecutor(NPROC) as ex:
        results = list(ex.map(run_worker, jobs))
    not_scheduled = [r["func"] for r in results if r.get("skipped")]
    results = [r for r in results if not r.get("skipped")]
    obligations = len(results)
    if not_scheduled:
        log(f"NOTE: property={pid} {len(not_scheduled)} of {len(jobs)} partitions of the thorough box were not scheduled within the wall budget "
            f"({int(BUDGET['wall'])} s); they are outside this run's claim (VERIF_SEED rotates the order)")
    for r in results:
        h = jobinfo[r["func"]]
        ph = per_harness[h.name]
        paths += r["paths"]; reached_total += r["reached"]
        smt_n += r["smt_queries"]; smt_t += r["smt_time_s"]
        ph["paths"] += r["paths"]; ph["reached"] += r["reached"]
        ph["max_part_wall_s"] = max(ph.get("max_part_wall_s", 0), r.get("wall_s", 0))
        stubs.update(r.get("stubs", []))
        states = [m["state"] for m in r["messages"]]
        if r["error"]:
            inconclusive.append(f"{r['func']}: worker error: {r['error'][-300:]}")
            continue
        if r["cex"]:
            for c in r["cex"][:3]:
                handle_candidate(h, c["args"], c["why"], r["func"])
            continue
        if states and all(s == "CONFIRMED" for s in states):
            if r["reached"] > 0:
                discharged += 1
                ph["confirmed"] += 1
            else:
                inconclusive.append(f"{r['func']}: confirmed but no path reached the oracle (vacuous)")
        else:
            msg = "; ".join(f"{m['state']}: {m['message'][:100]}" for m in r["messages"]) or "no verdict"
            inconclusive.append(f"{r['func']}: not exhausted within {h.tier(tier)['timeout']}s ({r['paths']} paths; {msg})")

    # 4. direct SMT harnesses
    smt_results = []
    for h in harnesses:
        if h.kind != "smt" or gate_failed:
            continue
        env = dict(os.environ, VERIF_MODE="smt", VERIF_TIER=tier)
        out = os.path.join(workdir, f"smt_{h.name}.json")
        code = (f"import sys, json; sys.path.insert(0,'/verif'); import {h.module} as m; "
                f"json.dump(m.{h.name}('{tier}'), open('{out}','w'))")
        try:
            p = subprocess.run([VPY, "-c", code], cwd=ROOT, capture_output=True, text=True,
                               timeout=h.tier(tier)["timeout"] * 2 + 60, env=env)
            res = json.load(open(out)) if os.path.exists(out) else None
        except subprocess.TimeoutExpired:
            res, p = None, None
        if res is None:
            inconclusive.append(f"{h.name}: smt harness did not complete: {(p.stderr[-300:] if p else 'timeout')}")
            continue
        per_harness[h.name] = {"queries": len(res), "bounds": h.bounds, "generalises": h.generalises}
        for q in res:
            if q["verdict"] == "not-encoded":
                continue
            obligations += 1
            smt_n += q.get("queries", 1); smt_t += q.get("time_s", 0.0)
            paths += 1
            if q["verdict"] == "unsat":
                discharged += 1; reached_total += 1
            elif q["verdict"] == "sat":
                handle_candidate(h, q["cex"], "smt model: " + q["name"], h.name + ":" + q["name"])
            else:
                inconclusive.append(f"{h.name}:{q['name']}: solver answered {q['verdict']}")
        smt_results += [{k: v for k, v in q.items() if k != "smt2"} for q in res][:10]

    # 5. report
    for line in known_lines:
        log(line)
    for inc in inconclusive:
        log(f"INCONCLUSIVE: property={pid} {inc}")
    for name, args, why, path in violations:
        log(f"VIOLATION property={pid} replay={path}")
        log(f"  harness={name} args={args} observed={why[:300]}")
    wall = round(time.time() - t_start, 2)
    for name, args, why, path in violations[:5]:
        samples.append({"harness": name, "args": args, "kind": "violation", "observed": why[:300]})
    bounds = {h.name: {"pre": per_harness.get(h.name, {}).get("pre", h.pre), "bounds": h.bounds} for h in harnesses}
    ev = {
        "property_id": pid, "tier": tier, "seed": seed, "level": "other",
        "coverage": {
            "explanation": "bounded symbolic execution of the real Hdl21 code (CrossHair 0.0.110 / z3): each obligation is one contracted partition of a harness; 'discharged' = CrossHair reported 'Confirmed over all paths' for it AND at least one path reached the oracle comparison",
            "obligations": obligations, "discharged": discharged,
            "evaluations": max(paths, 0), "distinct_nontrivial": reached_total,
            "rule": "evaluations = symbolic paths completed (each path stands for the set of inputs satisfying its path condition; paths are pairwise disjoint by construction); distinct_nontrivial = those paths that reached the harness's oracle comparison (counter at that point)",
            "samples": samples[:12] or [{"note": "no sample"}],
            "exhaustive": bool(obligations and discharged == obligations and not inconclusive and not not_scheduled),
            "functions_encoded": sorted(functions)[:400],
            "functions_encoded_note": "Hdl21 functions entered on the concrete sample path of each harness (lower bound of the code executed symbolically)",
            "bounds": bounds,
            "outside_bounds": sorted({h.outside for h in harnesses if h.outside}),
            "smt_queries": smt_n, "smt_time_s": round(smt_t, 2),
            "inconclusive": inconclusive, "unconfirmed_candidates": unconfirmed,
            "partitions_not_scheduled_within_budget": not_scheduled,
            "per_harness": per_harness, "known_findings_reported": known_lines,
            "concrete_seeds": concrete_seeds, "smt_direct": smt_results,
            "stubs": sorted(stubs),
            "checker_cmd": f"./check {pid} --tier {tier}",
            "trusted_base": ["CrossHair 0.0.110 + vlib/prelude.py work-arounds", "z3 5.1.0 (z3-solver wheel)",
                             "CPython 3.12", "harness oracles in /verif/harness and /verif/vlib"],
        },
        "assumptions": sorted(stubs) + ["harness inputs are well-typed (pydantic validation is the identity on them)",
                                        "each path starts from fresh-process state via reset_all()"],
        "wall_s": wall, "violations": len(violations),
    }
    evpath = os.path.join(ROOT, "evidence", pid + ".json")
    if os.environ.get("VERIF_WORKTAG"):  # scratch experiment against a seeded copy: never touches the evidence directory
        evpath = os.path.join(workdir, "evidence_" + pid + ".json")
    json.dump(ev, open(evpath, "w"), indent=1, default=str)
    log(f"SUMMARY property={pid} tier={tier} obligations={obligations} discharged={discharged} "
        f"paths={paths} reached={reached_total} smt_queries={smt_n} smt_time={smt_t:.1f}s "
        f"inconclusive={len(inconclusive)} known={len(known_lines)} violations={len(violations)} wall={wall}s")
    return 1 if violations else 0


if __name__ == "__main__":
    sys.exit(main())
