"""Model of decimal.Decimal (finite values) under a context (default prec=28, ROUND_HALF_EVEN).
value = c * 10**e with python ints c, e (symbolic under CrossHair)."""
import decimal as _real

class InvalidOperation(ArithmeticError): pass
class ModelUnsupported(Exception): pass

class Context:
    def __init__(self, prec=28, **kw): self.prec = prec
_Ctx = Context
_CTX = [_Ctx()]
def getcontext(): return _CTX[-1]
class localcontext:
    """decimal.localcontext(): pushes a copy of the current (or given) context"""
    def __init__(self, ctx=None, **kw):
        self.new = Context((ctx or _CTX[-1]).prec)
        if "prec" in kw: self.new.prec = kw["prec"]
    def __enter__(self):
        _CTX.append(self.new); return self.new
    def __exit__(self, *a):
        _CTX.pop(); return False
def reset_context():
    del _CTX[1:]; _CTX[0].prec = 28
ROUND_HALF_EVEN = "ROUND_HALF_EVEN"

def _ndigits(c):
    c = abs(c); n = 1
    while c >= 10 ** n: n += 1
    return n

def _rdiv(c, d):
    """round-half-even(c / 10**d) for d >= 0"""
    if d == 0: return c
    neg = c < 0; a = -c if neg else c
    p = 10 ** d
    q, r = divmod(a, p)
    t = 2 * r
    if t > p or (t == p and q % 2 == 1): q += 1
    return -q if neg else q

NEG_INF = object()

class MDec:
    __slots__ = ("c", "e", "inf")
    def __init__(self, value=0, e=None, inf=0):
        self.inf = inf
        if e is not None: self.c, self.e = value, e
        elif isinstance(value, MDec): self.c, self.e, self.inf = value.c, value.e, value.inf
        elif isinstance(value, bool): self.c, self.e = int(value), 0
        elif isinstance(value, int): self.c, self.e = value, 0
        elif isinstance(value, (str, float)):
            t = _real.Decimal(value).as_tuple()
            if not isinstance(t.exponent, int): raise ModelUnsupported("non-finite literal")
            c = int("".join(map(str, t.digits)) or "0")
            self.c, self.e = (-c if t.sign else c), t.exponent
        else: raise ModelUnsupported(f"Decimal({type(value).__name__})")
    # -- helpers
    @staticmethod
    def _fix(c, e):
        prec = getcontext().prec
        lim = 10 ** prec
        if -lim < c < lim:
            return MDec(c, e)
        n = _ndigits(c)
        if n > prec:
            d = n - prec
            c = _rdiv(c, d); e = e + d
            if abs(c) >= 10 ** prec:
                c = _rdiv(c, 1); e += 1
        return MDec(c, e)
    @staticmethod
    def _co(o):
        if isinstance(o, MDec): return o
        if isinstance(o, bool): return MDec(int(o), 0)
        if isinstance(o, int): return MDec(o, 0)
        return None
    def is_finite(self): return self.inf == 0
    def is_infinite(self): return self.inf != 0
    def is_nan(self): return False
    def is_qnan(self): return False
    def is_snan(self): return False
    def is_zero(self): return self.inf == 0 and self.c == 0
    def is_signed(self): return self.inf < 0 or (self.inf == 0 and self.c < 0)  # (the model has no negative zero)
    def copy_abs(self): return self.__abs__()
    def copy_negate(self): return self.__neg__()
    def adjusted(self):
        if self.inf: return 0
        return _ndigits(self.c) + self.e - 1
    def as_tuple_ce(self): return (self.c, self.e)
    # -- arithmetic
    def __mul__(self, o):
        o = MDec._co(o)
        if o is None: return NotImplemented
        if self.inf or o.inf: raise ModelUnsupported("inf arithmetic")
        return MDec._fix(self.c * o.c, self.e + o.e)
    __rmul__ = __mul__
    def _addsub(self, o, sign):
        o = MDec._co(o)
        if o is None: return NotImplemented
        if self.inf or o.inf:
            if self.inf and not o.inf: return MDec(0, 0, self.inf)
            if o.inf and not self.inf: return MDec(0, 0, sign * o.inf)
            raise ModelUnsupported("inf +- inf")
        m = self.e if self.e < o.e else o.e
        a = self.c * 10 ** (self.e - m); b = o.c * 10 ** (o.e - m)
        return MDec._fix(a + sign * b, m)
    def __add__(self, o): return self._addsub(o, 1)
    def __radd__(self, o):
        o = MDec._co(o)
        return NotImplemented if o is None else o._addsub(self, 1)
    def __sub__(self, o): return self._addsub(o, -1)
    def __rsub__(self, o):
        o = MDec._co(o)
        return NotImplemented if o is None else o._addsub(self, -1)
    def __neg__(self): return MDec(0, 0, -self.inf) if self.inf else MDec._fix(-self.c, self.e)
    def __pos__(self): return MDec._fix(self.c, self.e)
    def __abs__(self): return MDec(0, 0, 1) if self.inf else MDec._fix(abs(self.c), self.e)
    def __pow__(self, k):
        if isinstance(k, MDec):
            if k.e != 0: raise ModelUnsupported("non-integer power")
            k = k.c
        if isinstance(k, int) and self.e == 0 and self.c == 10:
            return MDec(1, k)
        if isinstance(k, int) and self.c == 1 and self.e == 1:
            return MDec(1, k)
        raise ModelUnsupported("pow with base != 10")
    def __truediv__(self, o): raise ModelUnsupported("division")
    __rtruediv__ = __truediv__
    def log10(self):
        if self.inf: raise ModelUnsupported("log10(inf)")
        if self.c == 0: return MDec(0, 0, -1)
        if self.c < 0: raise InvalidOperation("log10 of negative")
        return MDec(_frac(), -3)  # nondeterministic: any finite value (over-approximates Prefix.closest)
    # -- comparison (exact)
    def _cmp(self, o):
        o = MDec._co(o)
        if o is None: return None
        if self.inf or o.inf: return (self.inf > o.inf) - (self.inf < o.inf)
        m = self.e if self.e < o.e else o.e
        a = self.c * 10 ** (self.e - m); b = o.c * 10 ** (o.e - m)
        return (a > b) - (a < b)
    def __lt__(self, o): r = self._cmp(o); return NotImplemented if r is None else r < 0
    def __le__(self, o): r = self._cmp(o); return NotImplemented if r is None else r <= 0
    def __gt__(self, o): r = self._cmp(o); return NotImplemented if r is None else r > 0
    def __ge__(self, o): r = self._cmp(o); return NotImplemented if r is None else r >= 0
    def __eq__(self, o): r = self._cmp(o); return NotImplemented if r is None else r == 0
    def __ne__(self, o): r = self._cmp(o); return NotImplemented if r is None else r != 0
    def __hash__(self):
        if self.inf: return self.inf * 314159
        c, e = self.c, self.e
        if c == 0: return 0
        while c % 10 == 0: c //= 10; e += 1
        return hash((c, e))
    def __round__(self, places=None):
        if self.inf: raise InvalidOperation("round(inf)")
        if places is None:  # round(Decimal) -> int, half-even, whatever the context
            return _rdiv(self.c, -self.e) if self.e < 0 else self.c * 10 ** self.e
        d = -places - self.e
        c = _rdiv(self.c, d) if d >= 0 else self.c * 10 ** (-d)
        lim = 10 ** getcontext().prec
        if not (-lim < c < lim):
            raise InvalidOperation("quantize result has too many digits for current context")
        return MDec(c, -places)
    def __int__(self):
        if self.inf: raise OverflowError
        if self.e >= 0: return self.c * 10 ** self.e
        q = abs(self.c) // 10 ** (-self.e)
        return -q if self.c < 0 else q
    def __bool__(self): return bool(self.inf) or self.c != 0
    def __repr__(self): return f"MDec({self.c!r}, {self.e!r})" if not self.inf else f"MDec(inf={self.inf})"
    __str__ = __repr__

# nondeterministic fractional part for log10, supplied by the harness (environment stub)
_FRAC = [0]
def _frac(): return _FRAC[0]
def set_frac(v): _FRAC[0] = v

Decimal = MDec


class FloatOf:
    """the correctly rounded binary64 of the exact decimal value `d` (not computed)"""
    def __init__(self, d): self.d = d
    def _no(self, *a): raise ModelUnsupported("float arithmetic after float(Decimal): double rounding, see E3")
    __mul__ = __rmul__ = __add__ = __radd__ = __sub__ = __rsub__ = __truediv__ = __rtruediv__ = _no
