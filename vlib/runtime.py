"""run_body: the only thing a generated, contracted partition wrapper calls."""
from vlib import env


def _record(args, why):
    try:
        if env.SYM:
            conc = env.deep_realize(tuple(args))
        else:
            conc = tuple(args)
        with env.notrace():
            env.CEX.append({"args": _plain(conc), "why": str(why)[:2000]})
    except Exception as e:  # realisation failed: still record that something failed
        with env.notrace():
            env.CEX.append({"args": None, "why": "unrealisable: " + repr(e)[:200]})


def _plain(x):
    if isinstance(x, (tuple, list)):
        return [_plain(i) for i in x]
    if isinstance(x, bool):
        return bool(x)
    if isinstance(x, int):
        return int(x)
    if isinstance(x, str):
        return str(x)
    if isinstance(x, float):
        return float(x)
    if x is None:
        return None
    return repr(x)


def run_body(f, args):
    try:
        ok = f(*args)
    except Exception as e:  # CrossHair's own control flow is BaseException: not caught
        with env.notrace():
            why = "raised " + type(e).__name__
            try:
                why += ": " + str(e)[:1500]
            except BaseException:
                pass
        _record(args, why)
        return False
    if ok:
        with env.notrace():
            env.COUNTS["paths"] += 1
        return True
    with env.notrace():
        env.COUNTS["paths"] += 1
    _record(args, "oracle comparison returned False")
    return False
