"""Declarative harness records.  No CrossHair / hdl21 imports here."""
from dataclasses import dataclass, field
from typing import Any, Callable, Dict, List, Optional, Sequence, Tuple

REGISTRY: Dict[str, List["Harness"]] = {}


@dataclass
class Harness:
    prop: str
    name: str
    body: Callable
    module: str
    args: str  # "w: int, a: int, flag: bool, s: str"
    pre: List[str]  # validity + bounds, shared by both tiers
    # tier -> {"pre": [extra bounds], "parts": [(tag, extra_pre)], "timeout": seconds}
    tiers: Dict[str, Dict[str, Any]] = field(default_factory=dict)
    sample: Sequence[Any] = ()  # concrete args inside the box: plain-python sanity run + function trace
    bounds: str = ""
    outside: str = ""
    generalises: str = ""  # what the solver generalises over
    concrete: bool = False  # True: no symbolic inputs -> run as concrete seed, reported separately
    gen: Optional[Callable] = None  # rng, tier -> concrete args inside the box (engine self-check)
    kind: str = "crosshair"  # or "smt": body(tier) -> list of query result dicts
    pre_order: str = "partition_first"  # or "base_first": order of pre-condition lines in the generated wrappers (affects path counts only)
    gate: bool = False  # concrete validation of a model/oracle: failure => all verdicts of the run INCONCLUSIVE, never VIOLATION
    real_twin: Optional[Callable] = None  # replay through the real library (model-based harnesses)

    @property
    def argnames(self) -> List[str]:
        return [a.split(":")[0].strip() for a in self.args.split(",") if a.strip()]

    def tier(self, t: str) -> Dict[str, Any]:
        d = dict(self.tiers.get(t) or self.tiers.get("quick") or {})
        d.setdefault("pre", [])
        d.setdefault("parts", [("all", "True")])
        d.setdefault("timeout", 120)
        return d


def harness(prop, args="", pre=(), tiers=None, also=(), **kw):
    """also: further property ids this harness serves as a rider (its post-condition includes them)"""
    def deco(f):
        h = Harness(prop=prop, name=f.__name__, body=f, module=f.__module__, args=args,
                    pre=list(pre), tiers=tiers or {}, **kw)
        REGISTRY.setdefault(prop, []).append(h)
        for a in also:
            REGISTRY.setdefault(a, []).append(h)
        f.__harness__ = h
        return f

    return deco


def parts_over(var: str, values) -> List[Tuple[str, str]]:
    return [(f"{var}{v}".replace("-", "m"), f"{var} == {v}") for v in values]


def parts_product(*dims) -> List[Tuple[str, str]]:
    """dims: lists of (tag, pre); cartesian product."""
    out = [("", "True")]
    for d in dims:
        out = [((a + "_" + t).strip("_"), f"({p}) and ({q})") for a, p in out for t, q in d]
    return out
