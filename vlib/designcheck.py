"""Shared post-condition for design-template harnesses (C01 and its riders C06, C11)."""
import io
from vlib import env
import hdl21 as h
from vlib.dsl import ref_nets, describe_diff, Prim
from vlib.build import build
from vlib.pkgread import pkg_nets, spice_nets, check_package

# exported (domain, name) of the DSL's primitive kinds
PRIM_EXPORT = {"R": "resistor", "C": "capacitor", "L": "inductor", "Mos": "Mos", "Nmos": "Mos", "Pmos": "Mos",
               "Vdc": "vdc", "PhysicalResistor": "PhysicalResistor", "ThreeTerminalResistor": "ThreeTerminalResistor",
               "IdealResistor": "resistor", "Diode": "Diode", "Bipolar": "Bipolar"}

LAST = {}


def compare(top_c, pkg, riders=True, spice=True):
    """top_c: concrete DSL top.  pkg: exported package.  Returns (ok, why). Runs untraced."""
    want, wl = ref_nets(top_c)
    probs = check_package(pkg)
    if probs:
        return False, "C06 package not closed: " + "; ".join(probs[:3])
    try:
        got, gl = pkg_nets(pkg, topname=_topname(pkg, top_c))
    except AssertionError as ex:
        return False, "package reading failed: " + str(ex)
    if want != got:
        return False, "C01 net partition differs: " + describe_diff(want, got)
    wl2 = sorted((p, PRIM_EXPORT.get(k, k), prm) for p, k, prm in wl)
    gl = sorted(gl)
    # same leaf devices; every parameter the design gives must be on the instance with that value
    # (defaulted parameters of the primitive's parameter class may appear in addition)
    if [x[:2] for x in wl2] != [x[:2] for x in gl] or any(not set(a[2]) <= set(b[2]) for a, b in zip(wl2, gl)):
        return False, f"C01 leaf devices/parameters differ: want {wl2[:3]} got {gl[:3]}"
    if not riders:
        return True, ""
    # C06: from_proto and both netlisters accept it; C11: round trip
    import vlsirtools
    try:
        ns = h.from_proto(pkg)
    except Exception as ex:
        return False, "C06 from_proto rejected the package: " + repr(ex)[:200]
    texts = {}
    for fmt in ("spice", "spectre"):
        try:
            s = io.StringIO()
            vlsirtools.netlist(pkg=pkg, dest=s, fmt=fmt)
            texts[fmt] = s.getvalue()
        except Exception as ex:
            if "direct-netlisting of physical" in str(ex):
                spice = False  # generic physical primitives are documented as not netlistable before PDK compilation
                continue
            return False, f"C06 {fmt} netlister rejected the package: " + repr(ex)[:200]
    if spice:
        try:
            sn = spice_nets(texts["spice"], pkg, topname=_topname(pkg, top_c))
        except AssertionError as ex:
            return False, "C01 spice netlist reading failed: " + str(ex)
        if sn != want:
            return False, "C01 spice netlist partition differs: " + describe_diff(want, sn)
    ok, why = roundtrip(pkg, ns)
    if not ok:
        return False, why
    return True, ""


def _topname(pkg, top_c):
    names = [m.name for m in pkg.modules if m.name == top_c.name or m.name.endswith("." + top_c.name) or m.name.startswith(top_c.name)]
    return names[-1] if names else pkg.modules[-1].name


def _imported_modules(ns):
    """all hdl21 Modules reachable in the namespace returned by from_proto"""
    out = []

    def rec(n):
        for v in vars(n).values():
            if isinstance(v, h.Module):
                out.append(v)
            elif type(v).__name__ == "SimpleNamespace":
                rec(v)

    rec(ns)
    return out


def roundtrip(pkg, ns=None):
    """C11: to_proto(from_proto(P)) == P (same modules, message-equal)"""
    ns = ns if ns is not None else h.from_proto(pkg)
    mods = _imported_modules(ns)
    byname = {}
    from hdl21.qualname import qualname as _q
    tops = []
    want_top = pkg.modules[-1].name
    for m in mods:
        try:
            nm = _q(m)
        except Exception:
            nm = m.name
        byname[nm] = m
    if want_top not in byname:
        return False, f"C11 imported namespace lacks top {want_top}: {sorted(byname)[:5]}"
    env._reset_all()
    pkg2 = h.to_proto(byname[want_top], domain=pkg.domain)
    if pkg2 != pkg:
        a, b = str(pkg), str(pkg2)
        k = next((i for i in range(min(len(a), len(b))) if a[i] != b[i]), 0)
        return False, "C11 round trip differs near: " + repr(a[max(0, k - 60):k + 60]) + " vs " + repr(b[max(0, k - 60):k + 60])
    return True, ""


def run(top, style="proc", setattr_conns=False, riders=True, spice=True, dict_anon=False, flip=False, copies=False):
    """the common harness tail: build through the public API, export, compare with the oracle"""
    env.reset_all()
    m = build(top, style, setattr_conns, dict_anon, flip, copies)
    pkg = h.to_proto(m)
    top_c = env.deep_realize(top)
    with env.notrace():
        env.COUNTS["reached"] += 1
        ok, why = compare(top_c, pkg, riders, spice)
        LAST["why"] = why
        return ok
