"""One CrossHair analysis of one generated partition wrapper, in its own process.
usage: python -m vlib.worker <partfile> <funcname> <cond_timeout> <path_timeout> <out.json>"""
import os
import sys
import json
import time

os.environ["VERIF_MODE"] = "sym"
sys.path.insert(0, "/verif")
sys.setrecursionlimit(10000)

from vlib import env  # noqa: E402  (prelude first)
import z3  # noqa: E402
from crosshair.tracers import NoTracing  # noqa: E402

_pc = time.perf_counter
_orig_check = z3.Solver.check
SMT = {"n": 0, "t": 0.0}


def _check(self, *a):
    with NoTracing():
        t0 = _pc()
    try:
        return _orig_check(self, *a)
    finally:
        with NoTracing():
            SMT["n"] += 1
            SMT["t"] += _pc() - t0


z3.Solver.check = _check

from crosshair.core_and_libs import analyze_function, run_checkables  # noqa: E402
from crosshair.options import AnalysisOptionSet, AnalysisKind  # noqa: E402
import importlib.util  # noqa: E402


def main():
    partfile, fname, ctime, ptime, out = sys.argv[1:6]
    spec = importlib.util.spec_from_file_location("part_" + fname, partfile)
    mod = importlib.util.module_from_spec(spec)
    sys.modules[spec.name] = mod
    spec.loader.exec_module(mod)
    fn = getattr(mod, fname)
    opts = AnalysisOptionSet(
        per_condition_timeout=float(ctime),
        per_path_timeout=float(ptime),
        analysis_kind=[AnalysisKind.PEP316],
        report_all=True,
    )
    t0 = _pc()
    res = {"func": fname, "messages": [], "error": None}
    try:
        msgs = list(run_checkables(analyze_function(fn, opts)))
        for m in msgs:
            res["messages"].append({"state": m.state.name, "message": (m.message or "")[:1500]})
    except Exception as e:
        import traceback

        res["error"] = traceback.format_exc()[-3000:]
    res["wall_s"] = round(_pc() - t0, 3)
    res["paths"] = env.COUNTS["paths"]
    res["reached"] = env.COUNTS["reached"]
    res["smt_queries"] = SMT["n"]
    res["smt_time_s"] = round(SMT["t"], 3)
    res["cex"] = env.CEX[:20]
    res["stubs"] = list(sys.modules["vlib.prelude"].STUBS) + list(getattr(env, "EXTRA_STUBS", []))
    with open(out, "w") as f:
        json.dump(res, f)


if __name__ == "__main__":
    main()
