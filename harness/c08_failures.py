"""C08: a failed elaboration or generator call does not poison later ones.
Failure sources: a user pass injected at list position p raising on module m (public Elaborator /
set_elaborator); planted design faults caught inside checking and rewriting passes; a generator body
raising on its first call.  Continuations: retry unchanged (same error again), elaborate an unrelated
design, elaborate a design sharing sub-modules, repair and retry.  Post: no later call returns a package
that a fresh twin would not give."""
import io
import re
from vlib import env
from vlib.spec import harness, parts_over, parts_product
import hdl21 as h
from hdl21.elab import Elaborator, set_elaborator, reset_elaborator
from hdl21.elab.passes import ElabPass
from vlib.build import Builder, build
from harness.c07_history import dag
from harness import c02_illformed as c02

NPASS = len(Elaborator.default().passes)


def _norm(e):
    """exception type + message with file paths / line numbers / addresses removed"""
    s = re.sub(r"[^\s]*\.py:\d+", "<file>", str(e))
    s = re.sub(r"0x[0-9a-f]+", "<addr>", s)
    return type(e).__name__ + ": " + s


def _bytes(m):
    return h.to_proto(m).SerializeToString(deterministic=True)


def _mods(w):
    ds = dag(w)
    b = Builder()
    return [b.bmod(d) for d in ds]


WHY = {}


def _injected(p, mi, cont, w):
    """a user pass at position p raises when it visits module mi of TopA's hierarchy"""
    env._reset_all()
    twin = _mods(w)
    want = [None, None, _bytes(twin[2]), _bytes(twin[3])]
    mods = _mods(w)
    victim = mods[mi]

    class Boom(ElabPass):
        def elaborate_module(self, module):
            if module is victim:
                raise ValueError("user pass failed on " + str(module.name))
            return module

    passes = list(Elaborator.default().passes)
    passes.insert(p, Boom)
    set_elaborator(Elaborator(passes=passes))
    try:
        try:
            h.to_proto(mods[2])
            WHY["why"] = "injected failure did not surface"
            return False
        except Exception as e1:
            first = _norm(e1)
        env.COUNTS["reached"] += 1
        if cont == 0:  # retry unchanged, three times: the original error again, every time
            for attempt in range(3):
                try:
                    h.to_proto(mods[2])
                    WHY["why"] = "retry returned a package"
                    return False
                except Exception as e2:
                    if _norm(e2) != first:
                        WHY["why"] = f"retry {attempt + 1} reported a different error: {_norm(e2)[:200]} (first: {first[:200]})"
                        return False
            return True
    finally:
        reset_elaborator()
    if cont == 1:  # an unrelated design
        other = _mods(w)
        if _bytes(other[2]) != want[2] or _bytes(other[3]) != want[3]:
            WHY["why"] = "unrelated design differs from the fresh twin"
            return False
        return True
    if cont == 2:  # a design sharing sub-modules with the failed one
        wr = fresh = None
        if mi != 1:
            # first, before anything else completes its elaboration: a parent made by the built-in Wrapper around a shared
            # sub-module (Mid, with its bundle port), which the failed run may have left flattened but not elaborated
            from hdl21.generators import Wrapper
            iface = lambda mm: (sorted(mm.ports), sorted(mm.bundle_ports))
            try:
                wr = Wrapper(mods[1])
                fresh = Wrapper(_mods(w)[1])
            except Exception as e:
                return _fail("Wrapper of a shared sub-module of the failed design raised: " + _norm(e)[-200:])
            if iface(wr) != iface(fresh):
                return _fail(f"Wrapper of a shared sub-module has ports {iface(wr)}, a fresh process gives {iface(fresh)}")
        try:
            got = _bytes(mods[3])
        except Exception:
            return mi != 2 or _fail("design without the offending module raised")
        if got != want[3]:
            WHY["why"] = "sharing design exported something a fresh process would not"
            return False
        if wr is not None:
            try:
                gw = _bytes(wr)
            except Exception as e:
                return _fail("Wrapper of a shared sub-module of the failed design raised: " + _norm(e)[-200:])
            if gw != _bytes(fresh):
                return _fail("Wrapper of a shared sub-module differs from a fresh process")
        return True
    # cont == 3: the user code is removed ('repair'), same design again: fresh result or an exception
    try:
        got = _bytes(mods[2])
    except Exception:
        return True
    if got != want[2]:
        WHY["why"] = "retry after repair exported something a fresh process would not"
        return False
    return True


def _fail(msg):
    WHY["why"] = msg
    return False


REPAIRS = {0: ("bad", "a", "k"), 3: None, 6: ("bad", "a", "big"), 7: ("bad", "b", None), 21: ("bad", "b", None), 1: ("bad", "a", "k"), 11: ("bad", "b", None), 13: ("bad", "a", "k")}


def _via_array(top_d):
    """the parent reaches the (offending) Mid through an InstanceArray of 2 instead of a plain Instance"""
    from vlib.dsl import Sig
    i0 = top_d.insts[0]
    i0.kind, i0.n = "array", 2
    i0.conns = {"a": Sig("big"), "g": Sig("t")}
    return top_d


def _planted(fault, level, cont, w, via=0, neg=False):
    """a real design fault (C02 planter) caught by whichever pass detects it"""
    from vlib.dsl import ref_valid, Sig
    env._reset_all()
    delta = -1 if (neg and w >= 2) else 1  # (the planter's second variant of each fault class)
    top_d = c02.plant(fault, level, delta, w, 2)
    if via:
        if level == 0 or fault in (17, 19):
            return True  # (the array variant concerns faults below the top; cycles / name clashes keep the plain instance)
        _via_array(top_d)
    if ref_valid(top_d):
        return True
    b = Builder()
    try:
        m = b.bmod(top_d)
    except Exception:
        return True  # rejected at construction: nothing was elaborated
    try:
        h.to_proto(m)
        return True  # accepted ill-formed design: C02's subject, not this property's
    except Exception as e1:
        first = _norm(e1)
    env.COUNTS["reached"] += 1
    if cont == 0:
        for attempt in range(3):
            try:
                h.to_proto(m)
                return _fail("retry of an ill-formed design returned a package")
            except Exception as e2:
                if _norm(e2) != first:
                    return _fail(f"retry {attempt + 1} reported a different error: {_norm(e2)[:200]} (first: {first[:200]})")
        if fault == 19:
            return True  # a name clash lives in the export name space only (see C02)
        try:
            h.elaborate(m)
            return _fail("elaborate after the failure returned")
        except Exception as e3:
            return _norm(e3) == first or _fail(f"elaborate reported a different error: {_norm(e3)[:200]}")
    if cont == 1:  # unrelated, valid design after the failure
        base_d = c02.base(w, 2)[0]
        want = _bytes(build(base_d))
        env._reset_all_keep = None
        got = _bytes(build(c02.base(w, 2)[0]))
        return got == want or _fail("unrelated design differs")
    if cont == 2:  # the valid sub-modules of the failed design, instantiated by a new parent
        valid_d = c02.base(w, 2)[0]
        fresh = _bytes(build(valid_d))
        # re-use the failed design's own child objects where they are not the offending module
        if level == 0 and fault not in (17, 18):  # (for 17 / 18 the planter puts the fault below Mid)
            mid = b.mcache[id(top_d.insts[0].of)]  # Mid is valid when the fault sits in Top
            par = h.Module(name="Par")
            par.s, par.t = h.Port(width=w), h.Port()
            par.m0 = mid(a=par.s, g=par.t)
            try:
                got = h.to_proto(par)
            except Exception:
                return _fail("a parent of valid sub-modules of a failed design raised")
            par2 = h.Module(name="Par")
            par2.s, par2.t = h.Port(width=w), h.Port()
            par2.m0 = build(c02.base(w, 2)[1] if False else c02.base(w, 2)[0].insts[0].of)(a=par2.s, g=par2.t)
            return got.SerializeToString(deterministic=True) == _bytes(par2) or _fail("parent of shared sub-modules differs from fresh")
        return True
    if cont == 4:
        # the designer replaces the offending module: the parent's instance of it now refers to a valid module
        # (which itself uses no-connects, port references, bundles, an array and a pair). The edited parent no longer
        # contains the offending module and must elaborate to what a fresh process gives for the same program.
        if level == 0 or via:
            # level 0: the offending module is the top itself.  via: once the array has been flattened the parent holds
            # instances the designer never wrote, so "replace the instance" is not expressible - not a continuation here.
            return True
        try:
            if via:
                m.m0 = h.InstanceArray(of=b.bmod(_fresh_mid(top_d, w)), n=2)(a=m.big, g=m.t)
            else:
                m.m0 = b.bmod(_fresh_mid(top_d, w))(a=m.s, g=m.t)
        except Exception as e:
            # (a name clash is detected by the exporter, after elaboration succeeded: elaborated modules refuse edits)
            return "after elaboration" in str(e) or _fail("replacing the offending instance raised: " + _norm(e)[:200])
        try:
            got = _bytes(m)
        except Exception as e:
            return _fail("a design no longer containing the offending module raised: " + _norm(e)[-300:])
        env._reset_all()
        top_t = c02.plant(fault, level, delta, w, 2)
        if via:
            _via_array(top_t)
        bt = Builder()
        mt = bt.bmod(top_t)
        if via:
            mt.m0 = h.InstanceArray(of=bt.bmod(_fresh_mid(top_t, w)), n=2)(a=mt.big, g=mt.t)
        else:
            mt.m0 = bt.bmod(_fresh_mid(top_t, w))(a=mt.s, g=mt.t)
        return got == _bytes(mt) or _fail("the edited design exported something a fresh process would not")
    if cont == 5:
        # the designer edits the failed module WITHOUT repairing it (adds an unrelated signal) and retries: the design is
        # still ill-formed and its module may be half-rewritten, so no package may come back
        holder = m if level == 0 else b.mcache[id(top_d.insts[0].of)]
        try:
            holder.add(h.Signal(name="spare_late"))
        except Exception:
            return True  # (the edit itself was refused)
        for attempt in range(2):
            try:
                h.to_proto(m)
                return _fail("an ill-formed, half-elaborated design was exported after an unrelated edit")
            except Exception:
                pass
        return True
    # cont == 3: repair the planted fault and retry: fresh result or an exception, never something else
    rep = REPAIRS.get(fault)
    if rep is None or delta < 0:
        return True  # (repairs are written for the first variant of a fault class)
    iname, port, sig = rep
    holder = m if level == 0 else b.mcache[id(top_d.insts[0].of)]
    try:
        inst = holder.get(iname)
        if inst is None:
            return True
        g = holder.get("t" if level == 0 else "g")
        inst.connect(port, holder.get(sig) if sig else g)
        got = _bytes(m)
    except Exception:
        return True
    # the repaired design, described afresh
    top_r = c02.plant(fault, level, 1, w, 2)
    holder_d = top_r if level == 0 else top_r.insts[0].of
    bad = [i for i in holder_d.insts if i.name == iname][0]
    bad.conns[port] = Sig(sig) if sig else Sig("t" if level == 0 else "g")
    try:
        want = _bytes(build(top_r))
    except Exception:
        return _fail("repaired design exported although a fresh process rejects it")
    return got == want or _fail("repaired design exported something a fresh process would not")


def _fresh_mid(top_d, w):
    """the valid Mid of c02.base, instantiating the same (already built) child modules as the planted design's Mid"""
    have = {}
    for i in top_d.insts[0].of.insts:
        have.setdefault(getattr(i.of, "name", None), i.of)
    mid2 = c02.base(w, 2)[1]
    for i in mid2.insts:
        i.of = have.get(getattr(i.of, "name", None), i.of)
    return mid2


def _generator(nfail, a, pre=0):
    env._reset_all()
    state = {"n": 0}
    if pre == 1:
        # history: a generator-to-generator circular dependency was reported earlier in this process
        @h.paramclass
        class Q:
            a = h.Param(dtype=int, desc="a")

        @h.generator
        def Ping(p: Q) -> h.Module:
            return Pong(a=p.a)

        @h.generator
        def Pong(p: Q) -> h.Module:
            return Ping(a=p.a)

        try:
            Ping(a=a)
            return _fail("circular generators returned")
        except RecursionError:
            return True  # (not this property's subject)
        except Exception:
            pass

    @h.paramclass
    class P:
        a = h.Param(dtype=int, desc="a")

    if pre == 3:
        # history: a call that fails AFTER its body ran - the parameters are hashable but cannot be named - repeated: the same
        # error every time, also when the body hands out an existing module; and that module, returned afterwards by a
        # generator whose parameters can be named, gets the name a fresh process gives it
        class Opaque:
            def __init__(self, v):
                self.v = v

            def __eq__(self, other):
                return isinstance(other, Opaque) and self.v == other.v

            def __hash__(self):
                return hash(self.v)

        @h.paramclass
        class PO:
            o = h.Param(dtype=Opaque, desc="o")

        M = h.Module(name="M")
        M.x = h.Port(width=a)

        @h.generator
        def Hands(p: PO) -> h.Module:
            return M

        errs = []
        for k in range(nfail + 1):
            try:
                r = Hands(PO(o=Opaque(a + k % 2)))
                return _fail(f"attempt {k} of a call whose result cannot be named returned a module named {r.name!r} (earlier attempts: {errs})")
            except Exception as e:
                errs.append(type(e).__name__ + ": " + _norm(e)[:80])
        if len(set(errs)) != 1:
            return _fail(f"a repeated failing call reported different errors: {errs}")

        @h.generator
        def Namer(p: P) -> h.Module:
            return M

        got = Namer(a=a).name
        if got != f"M(a={a})":
            return _fail(f"a module handed out by a failed call was later named {got!r}, a fresh process names it 'M(a={a})'")

    @h.generator
    def Flaky(p: P) -> h.Module:
        state["n"] += 1
        if state["n"] <= nfail:
            raise ValueError("generator body failed")
        m = h.Module()
        m.x = h.Port(width=p.a)
        return m

    @h.generator
    def Outer(p: P) -> h.Module:
        m = h.Module()
        m.s = h.Signal(width=p.a)
        m.i = Flaky(a=p.a)(x=m.s)
        return m

    if pre == 2:
        # the outer generator's body catches the inner failure and calls the inner generator again: the same error again
        @h.generator
        def Catcher(p: P) -> h.Module:
            errs = []
            for _ in range(2):
                try:
                    return Flaky(a=p.a)
                except Exception as e:
                    errs.append(type(e).__name__ + ": " + str(e)[:40])
            state["errs"] = errs
            raise ValueError("generator body failed")

        if nfail >= 2:
            try:
                Catcher(a=a)
            except ValueError:
                pass
            except Exception as e:
                return _fail("spurious error: " + _norm(e)[:200])
            errs = state.get("errs")
            if errs is not None and any("generator body failed" not in x for x in errs):
                return _fail(f"a generator called again inside a body reported {errs}")
            state["n"] = 0
    for k in range(nfail):
        try:
            Outer(a=a)
            return _fail("failing generator returned")
        except ValueError as e:
            if "generator body failed" not in str(e):
                return _fail("a different error: " + str(e)[:200])
        except Exception as e:
            return _fail("spurious error after a failed generator call: " + _norm(e)[:200])
    env.COUNTS["reached"] += 1
    try:
        m = Outer(a=a)
        pkg = h.to_proto(m)
    except Exception as e:
        return _fail("generator could not be run again: " + _norm(e)[:200])
    return state["n"] == nfail + 1 and len(pkg.modules) == 2 and pkg.modules[0].signals[0].width == a


@harness("C08", args="p: int, mi: int, cont: int, w: int", pre=[f"0 <= p <= {NPASS}", "0 <= mi <= 2", "0 <= cont <= 3", "1 <= w <= 2"],
         tiers={"quick": {"timeout": 170, "pre": ["w == 2"], "parts": parts_over("cont", range(4))},
                "thorough": {"timeout": 900, "parts": parts_product(parts_over("cont", range(4)), parts_over("mi", range(3)))}},
         sample=(4, 1, 0, 2),
         bounds=f"a raising user pass at every position 0..{NPASS} of the default pass list x every module of a 3-level DAG with shared sub-modules x 4 continuations (retry unchanged, unrelated design, design sharing sub-modules, repair and retry)",
         generalises="fault position / module / continuation selectors (solver-enumerated)", outside="failures raised from inside library passes other than through design faults (see planted)")
def injected_pass(p, mi, cont, w):
    P = env.pick
    p, mi, cont, w = P(p, 0, NPASS), P(mi, 0, 2), P(cont, 0, 3), P(w, 1, 2)
    with env.notrace():
        return _injected(p, mi, cont, w)


@harness("C08", args="fault: int, level: int, cont: int, w: int, via: int, neg: bool", pre=[f"0 <= fault < {c02.NFAULT}", "0 <= level <= 1", "0 <= cont <= 5", "1 <= w <= 2", "0 <= via <= 1"],
         tiers={"quick": {"timeout": 170, "pre": ["w == 2"], "parts": parts_over("cont", range(6))},
                "thorough": {"timeout": 600, "parts": parts_product(parts_over("cont", range(6)), parts_over("level", range(2)))}},
         sample=(6, 1, 3, 2, 0, False),
         bounds=f"every C02 fault class ({c02.NFAULT}) at top level / one level down (the parent holding the offending module as a plain instance or as an instance array), detected by whichever checking or rewriting pass catches it (incl. faults detected after arrays / bundles / instance bundles were already popped), x 6 continuations (the sixth: an unrelated edit of the failed module, then a retry - still no package; the fifth: the parent's instance of the offending module is replaced by a valid module, then the parent is exported); repairs for 7 fault classes",
         generalises="fault / location / continuation selectors (solver-enumerated)", outside="")
def planted_fault(fault, level, cont, w, via, neg):
    P = env.pick
    fault, level, cont, w, via = P(fault, 0, c02.NFAULT - 1), P(level, 0, 1), P(cont, 0, 5), P(w, 1, 2), P(via, 0, 1)
    with env.notrace():
        return _planted(fault, level, cont, w, via, bool(neg))


@harness("C08", args="nfail: int, a: int, pre: int", pre=["1 <= nfail <= 3", "1 <= a <= 3", "0 <= pre <= 3"], tiers={"quick": {"timeout": 150}}, sample=(1, 2, 0),
         bounds="a generator (called from inside another generator) whose body raises on its first 1..3 calls and then succeeds; alone, after a generator-to-generator circular-dependency error earlier in the process, called again from inside a body that caught its failure, or after repeated calls that failed after their body ran (un-nameable parameters) while handing out an existing module",
         generalises="selectors", outside="")
def generator_raises(nfail, a, pre):
    nfail, a, pre = env.pick(nfail, 1, 3), env.pick(a, 1, 3), env.pick(pre, 0, 3)
    with env.notrace():
        return _generator(nfail, a, pre)
