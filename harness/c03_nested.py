"""C03 nested: slices / indices / concatenations of Signals, Slices, Concats, port references and
bundle references, resolved by the real elaborator and exporter, compared bit for bit with
Python list slicing on the list of (signal, bit).  Observed only through the exported package
(pkg_nets) and the public .width."""
import re
from vlib import env
from vlib.spec import harness, parts_over, parts_product
import hdl21 as h
from vlib.pkgread import pkg_nets, check_package

NONE = 99  # encodes a missing slice bound


def _n(v):
    return None if v == NONE else v


def _stage(lst, a, b, c):
    """python's answer + obligation class for lst[a:b:c]"""
    w = len(lst)
    r = lst[a:b:c]
    if not r:
        return r, "must_reject"
    inr = all(v is None or -w <= v <= w for v in (a, b))
    if not inr:
        return r, "may"
    return r, "must_accept"  # in-range bounds, at least one bit selected: "selects exactly the bits ... Python selects", whatever the step


def _istage(lst, i):
    w = len(lst)
    if -w <= i < w:
        return [lst[i]], "must_accept"
    return [], "must_reject"


def _expected(sel, w1, w2, s1, s2, i):
    X = [("x", k) for k in range(w1)]
    Y = [("y", k) for k in range(w2)]
    cls = []
    if sel == 0:
        r, c = _stage(X, *s1); cls.append(c)
    elif sel == 1:
        r, c = _stage(X, *s1); cls.append(c)
        if c != "must_reject":
            r, c = _stage(r, *s2); cls.append(c)
    elif sel == 2:
        r, c = _stage(X + Y, *s1); cls.append(c)
    elif sel == 3:
        r, c = _stage(X, *s1); cls.append(c)
        if c != "must_reject":
            r, c = _stage(r + Y, *s2); cls.append(c)
    elif sel == 4:
        r, c = _istage(X, i); cls.append(c)
    elif sel == 5:
        r, c = _stage(X, *s1); cls.append(c)
        r2, c2 = _istage(Y, i); cls.append(c2)
        r = r + r2
    elif sel == 6:  # index into a slice, concatenated above the other bus
        r, c = _stage(X, *s1); cls.append(c)
        if c != "must_reject":
            r, c = _istage(r, i); cls.append(c)
        r = Y + r
    elif sel in (7, 8):  # slice / index of a port reference, of a bundle reference (width w1)
        r, c = _stage(X, *s1); cls.append(c)
        if c != "must_reject":
            r, c = _istage(r, i); cls.append(c)
    elif sel == 9:  # nested concat, sliced: Concat(Concat(x, y), x[i])[s1]
        r0, c0 = _istage(X, i); cls.append(c0)
        if c0 != "must_reject":
            r, c = _stage(X + Y + r0, *s1); cls.append(c)
        else:
            r = []
    elif sel == 11:  # slice of a port reference whose port is tied to a bundle member (resolved through a bundle reference)
        r, c = _stage(X, *s1); cls.append(c)
    elif sel == 12:  # such a reference as a PART of a concatenation, between plain parts
        r0, c0 = _istage(Y, i); cls.append(c0)
        r = r0 + X + Y
    elif sel == 10:  # a strided / reversed slice between plain parts and a nested concat
        r, c = _stage(X, *s1); cls.append(c)
        r0, c0 = _istage(X, i); cls.append(c0)
        r = Y + r + Y + r0
    if "must_reject" in cls:
        return None, "must_reject"
    return r, ("must_accept" if all(c == "must_accept" for c in cls) else "may")


def _build(sel, w1, w2, s1, s2, i):
    top = h.Module(name="Top")
    x = top.add(h.Port(name="x", width=w1))
    y = top.add(h.Port(name="y", width=w2))
    sl = lambda p, s: p[s[0]:s[1]:s[2]]
    if sel == 0:
        e = sl(x, s1)
    elif sel == 1:
        e = sl(sl(x, s1), s2)
    elif sel == 2:
        e = sl(h.Concat(x, y), s1)
    elif sel == 3:
        e = sl(h.Concat(sl(x, s1), y), s2)
    elif sel == 4:
        e = x[i]
    elif sel == 5:
        e = h.Concat(sl(x, s1), y[i])
    elif sel == 6:
        e = h.Concat(y, sl(x, s1)[i])
    elif sel == 7:
        # i0.a (width w1) tied to x; the expression slices the port *reference*
        wrap = h.ExternalModule(name="Thru", port_list=[h.Port(name="a", width=w1)], paramtype=dict)
        top.i0 = wrap({})(a=x)
        e = sl(top.i0.a, s1)[i]
    elif sel == 8:
        B = h.Bundle(name="B")
        B.add(h.Signal(name="m", width=w1))
        B.add(h.Signal(name="k", width=1))
        top.bb = h.BundleInstance(of=B)
        thru = h.ExternalModule(name="Thru", port_list=[h.Port(name="a", width=w1)], paramtype=dict)
        top.i0 = thru({})(a=x)
        top.i1 = thru({})(a=top.bb.m)  # x -- bb.m are distinct nets; tie via a second instance
        e = sl(top.bb.m, s1)[i]
    elif sel == 11:
        B = h.Bundle(name="B")
        B.add(h.Signal(name="m", width=w1))
        top.bb = h.BundleInstance(of=B)
        thru = h.ExternalModule(name="Thru", port_list=[h.Port(name="a", width=w1)], paramtype=dict)
        top.i0 = thru({})(a=top.bb.m)
        top.i1 = thru({})(a=top.bb.m)  # (observation point for the bits of bb.m)
        e = sl(top.i0.a, s1)
    elif sel == 12:
        B = h.Bundle(name="B")
        B.add(h.Signal(name="m", width=w1))
        top.bb = h.BundleInstance(of=B)
        thru = h.ExternalModule(name="Thru", port_list=[h.Port(name="a", width=w1)], paramtype=dict)
        top.i0 = thru({})(a=top.bb.m)
        top.i1 = thru({})(a=top.bb.m)
        e = h.Concat(y[i], top.i0.a, y)
    elif sel == 9:
        e = sl(h.Concat(h.Concat(x, y), x[i]), s1)
    elif sel == 10:
        e = h.Concat(y, sl(x, s1), h.Concat(y, x[i]))
    return top, e


def _run(sel, w1, w2, a1, b1, c1, a2, b2, c2, i):
    env.reset_all()
    s1 = (_n(a1), _n(b1), c1)
    s2 = (_n(a2), _n(b2), c2)
    raised = None
    try:
        top, e = _build(sel, w1, w2, s1, s2, i)
        n = e.width if not isinstance(e, h.Concat) else e.width
        leaf = h.ExternalModule(name="Leaf", port_list=[h.Port(name="a", width=n)], paramtype=dict)
        top.u = leaf({})(a=e)
        pkg = h.to_proto(top)
    except Exception as ex:
        raised = ex
    sel, w1, w2, s1, s2, i = env.deep_realize((sel, w1, w2, s1, s2, i))
    with env.notrace():
        env.COUNTS["reached"] += 1
        want, cls = _expected(sel, w1, w2, s1, s2, i)
        if raised is not None:
            return cls != "must_accept"
        if cls == "must_reject":
            return False
        if check_package(pkg):
            return False
        from vlib.designcheck import roundtrip
        if not roundtrip(pkg)[0]:
            return False  # (C11 rider: the resolved slices / concatenations survive from_proto + to_proto unchanged)
        nets, _ = pkg_nets(pkg)
        cl = {}
        for g in nets:
            for t in g:
                cl[t] = g
        if int(n) != len(want):
            return False
        for j, (sig, k) in enumerate(want):
            if sel in (8, 11) or (sel == 12 and sig == "x"):
                # bits of bb.m are observed through i1.a (same bit order)
                if (("i1",), "a", k) not in cl[(("u",), "a", j)]:
                    return False
            elif ((), sig, k) not in cl[(("u",), "a", j)]:
                return False
        return True


W = 3
_BND = f"(-{2*W} <= {{v}} <= {2*W} or {{v}} == {NONE})"
_pre = ["1 <= w1 <= %d" % W, "1 <= w2 <= 2"] + [_BND.format(v=v) for v in ("a1", "b1", "a2", "b2")] + [
    f"-{W} <= c1 <= {W} and c1 != 0", f"-{W} <= c2 <= {W} and c2 != 0", f"-{2*W} <= i <= {2*W}"]


def _W2(parts):
    """quick partitions of the narrow box: parent width <= 2"""
    return [(t, "w1 <= 2 and " + c) for t, c in parts]


def _BYW(parts):
    """thorough partitions, one per parent width (a partition must stay below ~600 paths)"""
    out = []
    for t, c in parts:
        out.append((f"{t}_w1", "w1 == 1 and " + c))
        for w in (2, 3):
            if re.search(r"(?<!or )a1 == [0-9]+", c):  # the family pins the first bound itself
                out.append((f"{t}_w{w}", f"w1 == {w} and " + c))
            else:  # widths 2 and 3 hold most of the paths: split them once more by the first bound
                out += [(f"{t}_w{w}_{tag}", f"w1 == {w} and {cl} and " + c) for tag, cl in (("an", "a1 < 0"), ("ap", "0 <= a1 < 99"), ("a_", "a1 == 99"))]
    return out


def _parts(sels, steps1):
    return parts_product([(f"s{s}", f"sel == {s}") for s in sels], [(f"c{c}".replace("-", "m"), f"c1 == {c}") for c in steps1])


@harness("C03", also=("C11",), args="sel: int, w1: int, w2: int, a1: int, b1: int, c1: int, a2: int, b2: int, c2: int, i: int",
         pre=_pre, pre_order="base_first",
         tiers={
             # quick: in-range bounds only (out-of-range bounds are rejected before resolution: kernels)
             "quick": {"timeout": 150, "pre": ["w2 == 1", "a2 == 0 and b2 == 0 and c2 == 1 or sel == 1 or sel == 3"],
                       "parts": _W2(
                           parts_product([("s0", "sel == 0 and i == 0 and (-2 <= a1 <= 2 or a1 == 99) and (-2 <= b1 <= 2 or b1 == 99)")],
                                         [(f"c{c}".replace("-", "m"), f"c1 == {c}") for c in (1, -1, 2, -2)]) +
                           parts_product([("s2", "sel == 2 and i == 0 and (-3 <= a1 <= 3 or a1 == 99) and (-3 <= b1 <= 3 or b1 == 99)")],
                                         [(f"c{c}".replace("-", "m"), f"c1 == {c}") for c in (1, -1, 2, -2)],
                                         [("an", "a1 < 0"), ("ap", "a1 >= 0")]) +
                           [("s4", "sel == 4 and c1 == 1 and a1 == 0 and b1 == 0")] +
                           parts_product([("s7", "sel == 7 and c1 == 1 and (-2 <= a1 <= 2 or a1 == 99) and (-2 <= b1 <= 2 or b1 == 99)"),
                                          ("s8", "sel == 8 and c1 == 1 and (-2 <= a1 <= 2 or a1 == 99) and (-2 <= b1 <= 2 or b1 == 99)")],
                                         [("im2", "i == -2"), ("im1", "i == -1"), ("i0", "i == 0"), ("i1", "i == 1")]) +
                           [("s1", "sel == 1 and i == 0 and c1 == -1 and c2 == 1 and a1 == 99 and b1 == 99 and (-2 <= a2 <= 2 or a2 == 99) and (-2 <= b2 <= 2 or b2 == 99)"),
                            ("s1r", "sel == 1 and i == 0 and c1 == 1 and c2 == -1 and a1 == 99 and b1 == 99 and (-2 <= a2 <= 2 or a2 == 99) and (-2 <= b2 <= 2 or b2 == 99)"),
                            ("s6", "sel == 6 and c1 == -1 and a1 == 99 and b1 == 99 and -2 <= i <= 1"),
                            ("s9", "sel == 9 and c1 == 1 and i == 0 and a1 == 99 and (-3 <= b1 <= 3 or b1 == 99)")]) +
                           # strided / reversed-strided parents need 3 bits before a second element exists
                           [("s1m2", "sel == 1 and w1 == 3 and i == 0 and c1 == -2 and c2 == 1 and a1 == 99 and b1 == 99 and (-2 <= a2 <= 2 or a2 == 99) and (-2 <= b2 <= 2 or b2 == 99)"),
                            ("s1p2", "sel == 1 and w1 == 3 and i == 0 and c1 == 2 and c2 == -1 and a1 == 99 and b1 == 99 and (-2 <= a2 <= 2 or a2 == 99) and (-2 <= b2 <= 2 or b2 == 99)"),
                            ("s6m2", "sel == 6 and w1 == 3 and c1 == -2 and (a1 == 99 or a1 == 1) and b1 == 99 and -2 <= i <= 1"),
                            ("s6p2", "sel == 6 and w1 == 3 and c1 == 2 and a1 == 99 and b1 == 99 and -2 <= i <= 1"),
                            ("s10", "sel == 10 and w1 == 3 and (c1 == -1 or c1 == 2) and a1 == 99 and b1 == 99 and -1 <= i <= 0"),
                            ("s3m2", "sel == 3 and w1 == 3 and i == 0 and c1 == -2 and a1 == 99 and b1 == 99 and c2 == 1 and a2 == 1 and b2 == 99"),
                            ("s12", "sel == 12 and c1 == 1 and a1 == 99 and b1 == 99 and -2 <= i <= 1"),
                            ("s11", "sel == 11 and w1 == 3 and i == 0 and (c1 == -1 or c1 == 1 or c1 == -2) and (-3 <= a1 <= 3 or a1 == 99) and (b1 == 99 or b1 == 0 or b1 == 1)")]},
             "thorough": {"timeout": 600, "pre": ["a2 == 0 and b2 == 0 and c2 == 1 or sel == 1 or sel == 3", "i == 0 or sel >= 4"],
                          "parts": _BYW(
                              # single-stage families: every bound in [-4,4] or None (beyond +-3 is out of range for W=3), all 6 steps
                              parts_product([(f"s{s}", f"sel == {s} and (-4 <= a1 <= 4 or a1 == 99) and (-4 <= b1 <= 4 or b1 == 99)") for s in (0, 2, 9)],
                                            [(f"c{c}".replace("-", "m"), f"c1 == {c}") for c in (1, -1, 2, -2, 3, -3)]) +
                              parts_product([(f"s{s}", f"sel == {s} and (-3 <= a1 <= 3 or a1 == 99) and (-3 <= b1 <= 3 or b1 == 99) and -3 <= i <= 2") for s in (5, 6, 7, 8, 10)],
                                            [(f"c{c}".replace("-", "m"), f"c1 == {c}") for c in (1, -1, 2, -2)],
                                            [("in", "i < 0"), ("ip", "i >= 0")]) +
                              # two-stage families: whole / half-open inner slices, outer bounds in [-2,2] or None
                              parts_product([(f"s{s}", f"sel == {s} and (a1 == 99 or -1 <= a1 <= 0) and (b1 == 99 or -1 <= b1 <= 0) and (-2 <= a2 <= 2 or a2 == 99) and (-2 <= b2 <= 2 or b2 == 99)") for s in (1, 3)],
                                            [(f"c{c}".replace("-", "m"), f"c1 == {c}") for c in (1, -1, 2, -2)],
                                            [(f"d{c}".replace("-", "m"), f"c2 == {c}") for c in (1, -1, 2)]) +
                              [("s4", "sel == 4 and c1 == 1 and a1 == 0 and b1 == 0")])},
         },
         sample=(1, 3, 1, NONE, NONE, -1, 0, 2, 1, 0),
         bounds=f"W={W}: parent widths 1..{W} (second bus 1..2), bounds in [-{2*W},{2*W}] or None, steps +-1..+-{W}, index in [-{2*W},{2*W}]; 11 expression families, depth <= 2 (quick tier: narrower, see pre)",
         generalises="widths, bounds, steps, index (bounded box); exhaustiveness by path enumeration",
         outside="wider buses, depth-3 nesting, steps beyond +-3")
def nested_resolution(sel, w1, w2, a1, b1, c1, a2, b2, c2, i):
    return _run(sel, w1, w2, a1, b1, c1, a2, b2, c2, i)
