"""C07: elaboration results do not depend on elaboration history.
A DAG of 4 modules with shared sub-modules, a bundle-valued port and a port reference.  A symbolic
history of calls (op in {elaborate, to_proto, netlist}) x (non-empty subset of the modules, in either
order, alone or as a list) precedes the final export; post: bytes equal those of an identical twin design
exported with no history; exporting again changes nothing; a parent built AFTER its child was elaborated
sees the child's bundle-level ports; an elaborated module refuses additions."""
import io
from vlib import env
from vlib.spec import harness, parts_over, parts_product
import hdl21 as h
from vlib.dsl import *
from vlib.build import Builder
from vlib import designcheck as dc


def dag(w):
    B = BundleDef("B", [("x", w), ("y", 1)])
    cell = Ext("Cell", [("a", w), ("b", 1)])
    leaf = Mod("Leaf", ports=[("g", 1)], buns=[("bb", B, True)], insts=[
        Inst("u", cell, {"a": BRef("bb", ("x",)), "b": BRef("bb", ("y",))}),
        Inst("r", Prim("R", dict(r=1)), {"p": Sig("g"), "n": BRef("bb", ("y",))})])
    mid = Mod("Mid", ports=[("a", w), ("g", 1)], buns=[("mb", B, True), ("ib", B, False)], insts=[
        Inst("l0", leaf, {"bb": Bun("mb"), "g": Sig("g")}),
        Inst("l1", leaf, {"bb": Bun("ib"), "g": Open}),
        Inst("l2", leaf, {"bb": Anon((("x", Sig("a")), ("y", PRef("l1", "g")))), "g": PRef("l1", "g")})])
    topa = Mod("TopA", ports=[("s", w), ("t", 1)], buns=[("tb", B, False)], insts=[
        Inst("m0", mid, {"a": Sig("s"), "g": Sig("t"), "mb": Bun("tb")}),
        Inst("lx", leaf, {"bb": PRef("m0", "mb"), "g": Sig("t")}),
        Inst("ln", leaf, {"bb": NC(5), "g": Sig("t")})])
    topb = Mod("TopB", ports=[("s", w), ("t", 1)], buns=[("pb", B, True)], insts=[
        Inst("m0", mid, {"a": Sig("s"), "g": Sig("t"), "mb": Bun("pb")}),
        Inst("m1", mid, {"a": Sig("s"), "g": PRef("m0", "g"), "mb": Bun("pb")}),
        # two leaves joined by a port reference only: the bundle behind `la.bb` is implicit
        Inst("la", leaf, {"bb": Open, "g": Sig("t")}),
        Inst("lb", leaf, {"bb": PRef("la", "bb"), "g": Sig("t")})])
    return [leaf, mid, topa, topb]


def _build(w):
    ds = dag(w)
    b = Builder()
    return ds, [b.bmod(d) for d in ds]


def _call(op, mods, mask, rev, aslist):
    sel = [m for k, m in enumerate(mods) if mask >> k & 1]
    if rev:
        sel.reverse()
    arg = sel if (aslist or len(sel) > 1) else sel[0]
    if op == 0:
        h.elaborate(arg)
    elif op == 1:
        h.to_proto(arg)
    else:
        h.netlist(arg, io.StringIO(), fmt="spice")


WHY = {}


def _run(hist, final, w):
    env._reset_all()
    ds0, twin = _build(w)
    want = h.to_proto(twin[final]).SerializeToString(deterministic=True)
    want_list = h.to_proto([twin[2], twin[3], twin[1]]).SerializeToString(deterministic=True)
    ds, mods = _build(w)
    for op, mask, rev, aslist in hist:
        if mask == 0:
            continue
        _call(op, mods, mask, rev, aslist)
    # list-valued calls are history-independent too: nothing elaborated earlier may drop out
    if h.to_proto([mods[2], mods[3], mods[1]]).SerializeToString(deterministic=True) != want_list:
        WHY["why"] = "export of a list of modules differs from the twin without history"
        return False
    if [m is e for m, e in zip(h.elaborate([mods[2], mods[0]]), [mods[2], mods[0]])] != [True, True]:
        WHY["why"] = "elaborate(list) did not return the modules it was given"
        return False
    pkg = h.to_proto(mods[final])
    env.COUNTS["reached"] += 1
    if pkg.SerializeToString(deterministic=True) != want:
        WHY["why"] = "bytes differ from the twin without history"
        return False
    if h.to_proto(mods[final]).SerializeToString(deterministic=True) != want:
        WHY["why"] = "second export differs"
        return False
    # an independent reading as well: the package still means what the design says
    ok, why = dc.compare(ds[final], pkg, riders=False, spice=False)
    if not ok:
        WHY["why"] = why
        return False
    # a new parent built after the child was elaborated sees its bundle-level ports
    child_d, child = ds[1], mods[1]
    B = child_d.buns[0][1]
    par_d = Mod("Late", ports=[("s", w), ("t", 1)], buns=[("nb", B, False)], insts=[
        Inst("c", child_d, {"a": Sig("s"), "g": Sig("t"), "mb": Bun("nb")})])
    par = h.Module(name="Late")
    par.s, par.t = h.Port(width=w), h.Port()
    par.nb = h.BundleInstance(of=_bundle_of(mods))
    par.c = child(a=par.s, g=par.t, mb=par.nb)
    ok, why = dc.compare(par_d, h.to_proto(par), riders=False, spice=False)
    if not ok:
        WHY["why"] = "late parent: " + why
        return False
    # ... also when the new parent is made by the built-in Wrapper (which clones the child's ports)
    from hdl21.generators import Wrapper
    wrap = Wrapper(child)
    wrap_d = Mod(wrap.name, ports=list(child_d.ports), buns=[b for b in child_d.buns if b[2]], insts=[
        Inst("inner", child_d, {**{p: Sig(p) for p, _ in child_d.ports}, **{b[0]: Bun(b[0]) for b in child_d.buns if b[2]}})])
    par2_d = Mod("Late2", ports=[("s", w), ("t", 1)], buns=[("nb", B, False)], insts=[
        Inst("c", wrap_d, {"a": Sig("s"), "g": Sig("t"), "mb": Bun("nb")})])
    par2 = h.Module(name="Late2")
    par2.s, par2.t = h.Port(width=w), h.Port()
    par2.nb = h.BundleInstance(of=_bundle_of(mods))
    try:
        par2.c = wrap(a=par2.s, g=par2.t, mb=par2.nb)
        pkg2 = h.to_proto(par2)
    except Exception as e:
        WHY["why"] = "late parent through Wrapper: " + str(e).splitlines()[-1][:200]
        return False
    ok, why = dc.compare(par2_d, pkg2, riders=False, spice=False)
    if not ok:
        WHY["why"] = "late parent through Wrapper: " + why
        return False
    # elaborated modules refuse additions
    for m in mods:
        if m._elaborated is not None:
            try:
                m.add(h.Signal(name="late_addition"))
                WHY["why"] = "addition after elaboration accepted"
                return False
            except Exception:
                pass
    return True


def _bundle_of(mods):
    """the hdl21 Bundle object B used by this copy of the DAG (taken from TopB's bundle port, pre-flattening)"""
    return BUNDLES[id(mods[0])]


BUNDLES = {}
_orig_build = _build


def _build(w):  # noqa: F811  (remember each copy's Bundle object for the late parent)
    ds = dag(w)
    b = Builder()
    mods = [b.bmod(d) for d in ds]
    BUNDLES[id(mods[0])] = b.bcache[id(ds[0].buns[0][1])]
    return ds, mods


_ARGS = "o0: int, m0: int, r0: bool, l0: bool, o1: int, m1: int, r1: bool, l1: bool, o2: int, m2: int, r2: bool, l2: bool, final: int, w: int"
_PRE = ["0 <= o0 <= 2", "1 <= m0 <= 15", "0 <= o1 <= 2", "0 <= m1 <= 15", "0 <= o2 <= 2", "0 <= m2 <= 15", "2 <= final <= 3", "1 <= w <= 2"]


@harness("C07", args=_ARGS, pre=_PRE,
         tiers={"quick": {"timeout": 170, "pre": ["m2 == 0 and o2 == 0 and r2 == False and l2 == False", "w == 2", "r1 == False or m1 == 3 or m1 == 6 or m1 == 15", "l1 == False", "l0 == False or m0 == 1 or m0 == 2", "r0 == False or m0 == 3 or m0 == 6 or m0 == 12 or m0 == 15"],
                          "parts": parts_product(parts_over("o0", range(3)), parts_over("final", (2, 3)), parts_over("o1", range(3)))},
                # (a partition = one choice of the three operations, the final export and the first two module subsets: 256 histories)
                "thorough": {"timeout": 600, "pre": ["l2 == False and r2 == False and l1 == False"],
                             "parts": parts_product(parts_over("o0", range(3)), parts_over("final", (2, 3)), parts_over("o1", range(3)), parts_over("o2", range(3)),
                                                    parts_over("m0", range(1, 16)), parts_over("m1", range(16)))}},
         sample=(0, 1, False, False, 1, 6, True, False, 0, 0, False, False, 2, 2),
         bounds="DAG of 4 modules (Leaf with a bundle port; Mid with bundle ports, an internal bundle, an anonymous bundle and a port reference; two tops sharing Mid and Leaf); histories of 2 (quick) / 3 (thorough) calls, each elaborate / to_proto / netlist on any non-empty subset of the modules, in either order, alone or as a list; final export of either top; w = 2 (quick) / 1..2",
         generalises="history selectors (solver-enumerated; each history runs concretely)", outside="longer histories; more modules; genuinely separate processes (approximated by cache reset + fresh objects)")
def histories(o0, m0, r0, l0, o1, m1, r1, l1, o2, m2, r2, l2, final, w):
    P = env.pick
    hist = [(P(o0, 0, 2), P(m0, 1, 15), bool(r0), bool(l0)), (P(o1, 0, 2), P(m1, 0, 15), bool(r1), bool(l1)), (P(o2, 0, 2), P(m2, 0, 15), bool(r2), bool(l2))]
    final, w = P(final, 2, 3), P(w, 1, 2)
    with env.notrace():
        return _run(hist, final, w)


# ---- two modules with one simple name, defined in different python files (qualified names differ) --------------
_LIBSRC = '''
import hdl21 as h
def make(names):
    B = h.Bundle(name="B")
    for n in names:
        B.add(h.Signal(name=n))
    Inner = h.Module(name="Inner")
    Inner.d = h.BundleInstance(of=B, port=True)
    Inner.r = h.primitives.R(r=1)(p=getattr(Inner.d, names[0]), n=getattr(Inner.d, names[1]))
    return Inner, B
'''
_LIBS = {}


def _libs():
    if not _LIBS:
        import importlib, sys, tempfile, os
        import atexit, shutil
        d = tempfile.mkdtemp(prefix="c07libs_")
        atexit.register(shutil.rmtree, d, True)
        for n in ("c07_lib_a", "c07_lib_b"):
            with open(os.path.join(d, n + ".py"), "w") as f:
                f.write(_LIBSRC)
        sys.path.insert(0, d)
        _LIBS["a"], _LIBS["b"] = importlib.import_module("c07_lib_a"), importlib.import_module("c07_lib_b")
    return _LIBS["a"], _LIBS["b"]


def _namesake_top():
    la, lb = _libs()
    (Ia, Ba), (Ib, Bb) = la.make(["p", "n"]), lb.make(["x", "y"])
    PA = h.Module(name="PA"); PA.b = h.BundleInstance(of=Ba); PA.i = Ia(d=PA.b)
    PB = h.Module(name="PB"); PB.b = h.BundleInstance(of=Bb); PB.i = Ib(d=PB.b)
    T = h.Module(name="Top"); T.a = PA(); T.b = PB()
    return T, [Ia, Ib, PA, PB]


def _namesakes(o0, k0, o1, k1):
    env._reset_all()
    want = h.to_proto(_namesake_top()[0]).SerializeToString(deterministic=True)
    T, parts = _namesake_top()
    for op, k in ((o0, k0), (o1, k1)):
        if k < 0:
            continue
        if op == 0:
            h.elaborate(parts[k])
        elif op == 1:
            h.to_proto(parts[k])
        else:
            h.netlist(parts[k], io.StringIO(), fmt="spice")
    env.COUNTS["reached"] += 1
    return h.to_proto(T).SerializeToString(deterministic=True) == want


@harness("C07", args="o0: int, k0: int, o1: int, k1: int", pre=["0 <= o0 <= 2", "0 <= o1 <= 2", "-1 <= k0 <= 3", "-1 <= k1 <= 3"],
         tiers={"quick": {"timeout": 120}}, sample=(0, 0, 0, 1),
         bounds="two modules with one simple name (`Inner`, defined in two python files: qualified names differ), each with a bundle port of a different bundle, below two parents of one top; histories of two calls (elaborate / to_proto / netlist) on either Inner or either parent before the top is exported",
         generalises="history selectors (solver-enumerated)", outside="")
def namesake_histories(o0, k0, o1, k1):
    P = env.pick
    a = (P(o0, 0, 2), P(k0, -1, 3), P(o1, 0, 2), P(k1, -1, 3))
    with env.notrace():
        return _namesakes(*a)
