"""C13: parameter values reach the package unchanged.
Values are realised at the pydantic / protobuf / decimal C boundary, so beyond the stated boxes this is
solver-enumerated coverage, not generalisation (DESIGN.md section 5, C13).
 dispatch : value kind x primitive / external-module parameter -> ParamValue variant and value
 prefixed : (coef, exp, prefix) -> exact digits and prefix kept, incl. |coef| around 2^63 and 1e30
 scalar   : Scalar conversion of ints, floats, Decimals, and all strings up to length 3 over an alphabet
            built from digit / sign / point / exponent / separator / letter characters"""
import re
import enum
from decimal import Decimal
from vlib import env
from vlib.spec import harness, parts_over, parts_product
import hdl21 as h
from hdl21.prefix import Prefix, Prefixed
from vlib.pkgread import param_value, param_decimal, PREFIX_EXP

PL = [-24, -21, -18, -15, -12, -9, -6, -3, -2, -1, 0, 1, 2, 3, 6, 9, 12, 15, 18, 21, 24]
BYPOW = {p.value: p for p in Prefix}
WHY = {}


def _fail(msg):
    WHY["why"] = msg
    return False


def _inst_params(top):
    pkg = h.to_proto(top)
    inst = pkg.modules[-1].instances[0]
    return inst, {p.name: p.value for p in inst.parameters}


def _two_port(prim_call):
    m = h.Module(name="T")
    a, b = m.add(h.Port(name="a")), m.add(h.Port(name="b"))
    m.u = prim_call(**{p: (a if k % 2 == 0 else b) for k, p in enumerate(prim_call.ports)})
    return m


class Color(enum.Enum):
    RED = "red"
    BLUE = "blue"


class Corner(str, enum.Enum):  # a string-valued enum in the mix-in form: a `str` and an `Enum` at once
    FAST = "ff_hot"
    SLOW = "ss_cold"


class Mode(enum.StrEnum):
    ON = "on"
    OFF = "off"


def _prefixed_ok(pv, want: Prefixed):
    """exact decimal digits and prefix of a Prefixed kept"""
    v = param_value(pv)
    if v[0] != "prefixed":
        return False
    if v[3] != want.prefix.name:
        return False
    got = Decimal(v[2])
    if got != want.number:
        return False
    # exact digits: the same value AND, when carried as a string, the same digit string
    return v[1] == "int64_value" or v[2] == str(want.number)


def _dispatch(kind, which, coef, pv):
    env._reset_all()
    v = Prefixed(number=Decimal(coef).scaleb(-1), prefix=BYPOW[pv])
    P = h.primitives
    env.COUNTS["reached"] += 1
    if which == 0:  # ideal primitives: documented VLSIR mapping, parameter names kept
        # a Literal on a Scalar-typed field stays that literal, also when its text reads as a number
        for text in ("1e3", "47", "0.10", "w/%d" % (abs(coef) + 1), " 5 ", "inf"):
            _, gl = _inst_params(_two_port(P.R(r=h.Literal(text))))
            if param_value(gl["r"]) != ("literal", text):
                return _fail(f"Literal({text!r}) on R.r exported as {param_value(gl['r'])}")
        table = [(P.R, "resistor", dict(r=v), {}), (P.C, "capacitor", dict(c=v), {}), (P.L, "inductor", dict(l=v), {}),
                 (P.Vdc, "vdc", dict(dc=v, ac=None), {}), (P.Isrc, "isource", dict(dc=v), {}),
                 (P.Vpulse, "vpulse", dict(v1=v, v2=2 * v, delay=v, rise=v, fall=None, width=3 * v, period=v),
                  {"delay": "td", "rise": "tr", "fall": "tf", "width": "tpw", "period": "tper"}),
                 (P.Vsin, "vsin", dict(voff=v, vamp=v, freq=v), {}),
                 (P.Vcvs, "vcvs", dict(gain=v), {}), (P.Vccs, "vccs", dict(gain=v), {}), (P.Ccvs, "ccvs", dict(gain=v), {}), (P.Cccs, "cccs", dict(gain=v), {})]
        prim, vname, kw, ren = table[kind % len(table)]
        try:
            call = prim(**kw)
        except Exception:
            fields = set(prim.Params.__params__)
            kw = {k: x for k, x in kw.items() if k in fields}
            call = prim(**kw)
        inst, got = _inst_params(_two_port(call))
        if (inst.module.external.domain, inst.module.external.name) != ("vlsir.primitives", vname):
            return _fail(f"{prim.name} exported as {inst.module.external}")
        want = {ren.get(k, k): x for k, x in kw.items() if x is not None}
        # defaulted fields of the parameter class may appear in addition; the given ones must be exact
        for k, x in want.items():
            if k not in got or not _prefixed_ok(got[k], x):
                return _fail(f"{prim.name}.{k}: gave {x}, package has {param_value(got[k]) if k in got else None}")
        given_none = [ren.get(k, k) for k, x in kw.items() if x is None]
        if any(k in got for k in given_none):
            return _fail(f"{prim.name}: None-valued parameter exported")
        return True
    if which == 1:  # physical primitive: Scalars, enums, optional strings
        kw = dict(w=v, l=2 * v, npar=None, mult=coef % 5 or None, tp=P.MosType.PMOS if kind % 2 else P.MosType.NMOS,
                  vth=list(P.MosVth)[kind % len(P.MosVth)], family=list(P.MosFamily)[kind % len(P.MosFamily)], model="m%d" % kind if kind % 3 else None)
        fields = set(P.Mos.Params.__params__)
        kw = {k: x for k, x in kw.items() if k in fields}
        m = h.Module(name="T")
        d, g = m.add(h.Port(name="d")), m.add(h.Port(name="g"))
        m.u = P.Mos(**kw)(d=d, g=g, s=d, b=g)
        inst, got = _inst_params(m)
        if (inst.module.external.domain, inst.module.external.name) != ("hdl21.primitives", "Mos"):
            return _fail("Mos exported as " + str(inst.module.external))
        for k, x in kw.items():
            if x is None:
                if k in got:
                    return _fail(f"Mos.{k}: None exported")
                continue
            if k not in got:
                return _fail(f"Mos.{k} missing")
            pvv = param_value(got[k])
            if isinstance(x, Prefixed):
                ok = _prefixed_ok(got[k], x)
            elif isinstance(x, enum.Enum):
                ok = pvv == ("literal", x.value)
            elif isinstance(x, str):
                ok = pvv == ("literal", x)
            elif isinstance(x, int):
                ok = param_decimal(got[k]) == x
            else:
                ok = False
            if not ok:
                return _fail(f"Mos.{k}: gave {x!r}, package has {pvv}")
        return True
    # which == 2: external module with dict parameters: every type the exporter accepts
    vals = {"i": coef, "neg": -coef, "big": 2 ** 62 + coef, "f": coef / 8, "f3": coef / 3, "s": "txt %d" % kind, "lit": h.Literal("w*%d" % kind),
            "enum": Color.RED if kind % 2 else Color.BLUE, "senum": Corner.FAST if kind % 2 else Corner.SLOW, "strenum": Mode.ON if kind % 3 else Mode.OFF, "dec": Decimal(coef).scaleb(-3), "p": v, "none": None, "zero": 0, "fzero": 0.0}
    E = h.ExternalModule(name="E", port_list=[h.Port(name="a"), h.Port(name="b")], paramtype=dict)
    inst, got = _inst_params(_two_port(E(vals)))
    for k, x in vals.items():
        if x is None:
            if k in got:
                return _fail("None exported")
            continue
        if k not in got:
            return _fail(f"{k} missing")
        pvv = param_value(got[k])
        if isinstance(x, bool):
            ok = False
        elif isinstance(x, int):
            ok = pvv == ("int64_value", x)
        elif isinstance(x, float):
            ok = pvv[0] == "double_value" and pvv[1] == x and repr(pvv[1]) == repr(x)
        elif isinstance(x, enum.Enum):  # (before `str`: mix-in enums are both)
            ok = pvv == ("literal", x.value)
        elif isinstance(x, str):
            ok = pvv[0] in ("literal", "string_value") and pvv[1] == x
        elif isinstance(x, h.Literal):
            ok = pvv == ("literal", x.text)
        elif isinstance(x, enum.Enum):
            ok = pvv == ("literal", x.value)
        elif isinstance(x, Decimal):
            ok = pvv[0] in ("literal", "string_value") and Decimal(pvv[1]) == x and pvv[1] == str(x)
        else:
            ok = _prefixed_ok(got[k], x)
        if not ok:
            return _fail(f"ext.{k}: gave {x!r}, package has {pvv}")
    return True


SPECIAL = [2 ** 63 - 1, 2 ** 63, -(2 ** 63), -(2 ** 63) - 1, 10 ** 30, 123456789012345678901234567, 2 ** 64]


def _prefixed(coef, exp, pv, sp):
    env._reset_all()
    c = SPECIAL[sp] if sp >= 0 else coef
    v = Prefixed(number=Decimal(c).scaleb(exp), prefix=BYPOW[pv])
    env.COUNTS["reached"] += 1
    inst, got = _inst_params(_two_port(h.primitives.R(r=v)))
    if not _prefixed_ok(got["r"], v):
        return _fail(f"R.r: gave {v}, package has {param_value(got['r'])}")
    E = h.ExternalModule(name="E", port_list=[h.Port(name="a"), h.Port(name="b")], paramtype=dict)
    inst, got = _inst_params(_two_port(E(dict(p=v))))
    if not _prefixed_ok(got["p"], v):
        return _fail(f"ext.p: gave {v}, package has {param_value(got['p'])}")
    # the same VALUE written differently, exported later in the same process, keeps ITS digits and prefix
    others = [Prefixed(number=v.number.scaleb(0) * 1, prefix=v.prefix)]
    k = PL.index(pv)
    if k > 0:
        d = pv - PL[k - 1]
        others.append(Prefixed(number=v.number.scaleb(d), prefix=BYPOW[PL[k - 1]]))
    others.append(Prefixed(number=Decimal(str(v.number) + ("0" if "." in str(v.number) and "E" not in str(v.number) else ".0" if "E" not in str(v.number) else "")) if "E" not in str(v.number) else v.number, prefix=v.prefix))
    for o in others:
        inst, got = _inst_params(_two_port(h.primitives.R(r=o)))
        if not _prefixed_ok(got["r"], o):
            return _fail(f"R.r: gave {o} (after exporting the equal value {v}), package has {param_value(got['r'])}")
    return True


ALPHA = ["0", "1", "5", ".", "e", "E", "-", "+", "_", " ", "a", "n", "x"]
NUMERIC = re.compile(r"^[+-]?(\d+(\.\d*)?|\.\d+)([eE][+-]?\d+)?$")


def _scalar_str(codes):
    s = "".join(ALPHA[c] for c in codes if c >= 0)
    env.COUNTS["reached"] += 1
    r = h.scalar.to_scalar(s)
    strict_numeric = bool(NUMERIC.match(s))
    try:
        py = Decimal(s)
    except Exception:
        py = None
    if strict_numeric:
        return (isinstance(r, Prefixed) and r.number * Decimal(10) ** r.prefix.value == py) or _fail(f"numeric string {s!r} became {r!r}")
    if py is None:  # no reading of the string as a number exists
        return (isinstance(r, h.Literal) and r.text == s) or _fail(f"non-numeric string {s!r} became {r!r}")
    # grey zone (Python's Decimal accepts it: underscores, surrounding blanks, nan / inf): either reading, never a different value
    if isinstance(r, h.Literal):
        return r.text == s or _fail(f"{s!r} -> literal {r.text!r}")
    return (py.is_nan() and r.number.is_nan()) or r.number * Decimal(10) ** r.prefix.value == py or _fail(f"{s!r} became {r!r}")


def _scalar_num(kind, coef, exp):
    env.COUNTS["reached"] += 1
    if kind == 0:
        x, want = coef * 10 ** max(exp, 0), Decimal(coef * 10 ** max(exp, 0))
    elif kind == 1:
        x = coef / 10 ** abs(exp) if exp else float(coef)
        want = Decimal(repr(x))  # the decimal value a float denotes when written out (shortest repr)
    elif kind == 2:
        x = Decimal(coef).scaleb(exp); want = x
    elif kind == 3:
        x = "%de%d" % (coef, exp); want = Decimal(x)
    else:
        # computed floats: their shortest repr has up to 17 significant digits, all of which are the value
        x = (coef / 3.0, coef / 7.0, 0.1 * coef + 0.2, coef * 3.141592653589793, (coef + 0.1) / 9.0, 1e-9 * coef / 7.0, 1e6 * coef / 11.0)[exp % 7] * (10.0 ** (exp // 3))
        want = Decimal(repr(x))
    r = h.scalar.to_scalar(x)
    if not isinstance(r, Prefixed):
        return _fail(f"{x!r} became {r!r}")
    # through a Scalar-typed parameter as well
    rp = h.primitives.R(r=x).params.r
    return (r.number * Decimal(10) ** r.prefix.value == want and rp == r) or _fail(f"{x!r} became {r!r} / {rp!r}, want {want}")


@harness("C13", args="kind: int, which: int, coef: int, pv: int", pre=["0 <= kind <= 10", "0 <= which <= 2", "-20 <= coef <= 99", "pv in " + repr(PL)],
         tiers={"quick": {"timeout": 170, "pre": ["coef % 7 == 3 or coef == 0 or coef == -1", "pv == -9 or pv == 0 or pv == 3 or pv == -2"], "parts": parts_over("which", range(3))},
                "thorough": {"timeout": 1500, "parts": parts_product(parts_over("which", range(3)), parts_over("kind", range(11)))}},
         sample=(5, 0, 15, -9),
         bounds="11 ideal primitives (documented VLSIR names and the pulse-source renaming), physical Mos (Scalars, enums, optional strings, None omitted), external module with dict parameters (int, negative, 62-bit, float incl. non-terminating binary fractions, str, Literal, str-Enum, Decimal, Prefixed, None, zeros); mantissas coef/10 with coef in [-20,99], all 21 prefixes (quick: a spread)",
         generalises="nothing beyond the box: values realise at pydantic / protobuf", outside="Decimal mantissas of arbitrary length (see prefixed for the boundary cases)")
def dispatch(kind, which, coef, pv):
    P = env.pick
    kind, which, coef, pv = P(kind, 0, 10), P(which, 0, 2), P(coef, -20, 99), env.pick_from(pv, PL)
    with env.notrace():
        return _dispatch(kind, which, coef, pv)


@harness("C13", args="coef: int, exp: int, pv: int, sp: int", pre=["-30 <= coef <= 130", "-30 <= exp <= 30", "pv in " + repr(PL), f"-1 <= sp < {len(SPECIAL)}"],
         tiers={"quick": {"timeout": 170, "pre": ["coef % 10 == 7 or coef == 0 or coef == 100 or coef == -1", "exp % 5 == 0 or exp == 1 or exp == -1"],
                          "parts": [("small_" + t, "sp == -1 and " + c) for t, c in (("a", "pv < -9"), ("b", "-9 <= pv < 0"), ("c", "0 <= pv <= 3"), ("d", "pv > 3"))] + [("special", "sp >= 0 and coef == 0 and -3 <= exp <= 3")]},
                "thorough": {"timeout": 600, "parts": [(f"{t}_p{str(pv).replace('-', 'm')}", f"sp == -1 and pv == {pv} and {c}") for pv in PL for t, c in (("neg", "coef < 0"), ("lo", "0 <= coef < 60"), ("hi", "coef >= 60"))]
                                                  + [("special", "sp >= 0 and coef == 0")]}},
         sample=(0, 0, 0, 4),
         bounds="Prefixed(coef x 10^exp, prefix): coef in [-30,130], exp in [-30,30] (quick: a lattice), all 21 prefixes; plus mantissas at the int64 boundary (2^63-1, 2^63, -2^63, -2^63-1, 2^64), 1e30 and a 27-digit integer with exponents -3..3 (all exponents thorough): exact digits and prefix on an ideal resistor and on an external module",
         generalises="nothing beyond the box (decimal is C code)", outside="mantissas of arbitrary length")
def prefixed(coef, exp, pv, sp):
    P = env.pick
    coef, exp, pv, sp = P(coef, -30, 130), P(exp, -30, 30), env.pick_from(pv, PL), P(sp, -1, len(SPECIAL) - 1)
    with env.notrace():
        return _prefixed(coef, exp, pv, sp)


@harness("C13", args="c0: int, c1: int, c2: int", pre=[f"-1 <= c0 < {len(ALPHA)}", f"-1 <= c1 < {len(ALPHA)}", f"-1 <= c2 < {len(ALPHA)}", "c0 >= 0 or (c1 == -1 and c2 == -1)", "c1 >= 0 or c2 == -1"],
         tiers={"quick": {"timeout": 170, "parts": [("lo", "c0 < 6"), ("hi", "c0 >= 6")]}}, sample=(1, 4, 2),
         bounds=f"Scalar conversion of every string of length <= 3 over {ALPHA!r}: strictly numeric strings (decimal-literal grammar) become the prefixed number of equal decimal value, strings no number parser accepts become a literal with the same text; strings only Python's Decimal accepts (underscores, blanks, nan) may go either way but never to a different value",
         generalises="string selectors (solver-enumerated)", outside="longer strings; other characters")
def scalar_strings(c0, c1, c2):
    P = env.pick
    cs = (P(c0, -1, len(ALPHA) - 1), P(c1, -1, len(ALPHA) - 1), P(c2, -1, len(ALPHA) - 1))
    with env.notrace():
        return _scalar_str(cs)


@harness("C13", args="kind: int, coef: int, exp: int", pre=["0 <= kind <= 4", "-50 <= coef <= 120", "-6 <= exp <= 6"],
         tiers={"quick": {"timeout": 170, "pre": ["coef % 3 == 1 or coef == 0 or coef == -50"], "parts": parts_over("kind", range(5))},
                "thorough": {"timeout": 600, "parts": parts_over("kind", range(5))}}, sample=(1, 1, -1),
         bounds="Scalar conversion of ints, floats (coef/10^k, and computed floats - thirds, sevenths, multiples of pi, 0.1*k+0.2 - whose shortest repr carries 16-17 significant digits; oracle = the decimal value of the float's shortest repr), Decimals and 'NeM' strings, directly and through a Scalar-typed primitive parameter",
         generalises="nothing beyond the box", outside="")
def scalar_numbers(kind, coef, exp):
    P = env.pick
    kind, coef, exp = P(kind, 0, 4), P(coef, -50, 120), P(exp, -6, 6)
    with env.notrace():
        return _scalar_num(kind, coef, exp)
