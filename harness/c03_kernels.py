"""C03 kernels: index normalisation of Signal[...] over UNBOUNDED integers, through the public
API only (Signal(width=w)[...], .top/.bot/.step/.width).  Oracle: closed form of CPython's
PySlice_AdjustIndices (loop free), written here independently."""
from vlib import env
from vlib.spec import harness
import hdl21 as h

env.stub_int_format()


def py_adjust(w, a, b, c):
    """(first selected index, count) of range(w)[a:b:c]; a/b may be None; c != 0."""
    if c > 0:
        s = 0 if a is None else (max(a + w, 0) if a < 0 else min(a, w))
        e = w if b is None else (max(b + w, 0) if b < 0 else min(b, w))
        n = (e - s + c - 1) // c if s < e else 0
    else:
        s = w - 1 if a is None else (max(a + w, -1) if a < 0 else min(a, w - 1))
        e = -1 if b is None else (max(b + w, -1) if b < 0 else min(b, w - 1))
        n = (s - e - c - 1) // (-c) if e < s else 0
    return s, n


def _chk(w, a, b, c):
    s, n = py_adjust(w, a, b, c)
    inrange = (a is None or -w <= a <= w) and (b is None or -w <= b <= w)
    try:
        sl = h.Signal(name="s", width=w)[a:b:c]
        got_w, top, bot, step = sl.width, sl.top, sl.bot, sl.step
    except Exception:
        env.reached()
        # rejection is right iff nothing is selected, or a bound lies beyond [-w, w]
        return n == 0 or not inrange
    env.reached()
    if n == 0:
        return False  # a slice that selects no bit must be rejected
    # accepted: must be exactly Python's selection: first index s, count n, stride c
    first = bot if step > 0 else top - 1
    return got_w == n and first == s and step == c and top - bot == (n - 1) * abs(c) + 1


def _mk(S):
    tag = ("p" if S > 0 else "m") + str(abs(S))

    def f(w, a, b, an, bn):
        return _chk(w, None if an else a, None if bn else b, S)

    f.__name__ = "slice_step_" + tag
    f.__qualname__ = f.__name__
    return f


_T = {"quick": {"timeout": 120}, "thorough": {"timeout": 600}}
for _S in (1, 2, 3, 4, -1, -2, -3, -4, 5, 6, -5, -6):
    _f = _mk(_S)
    globals()[_f.__name__] = harness(
        "C03", args="w: int, a: int, b: int, an: bool, bn: bool", pre=["w >= 1"],
        tiers=_T if abs(_S) <= 4 else {"thorough": {"timeout": 600}, "quick": {"timeout": 120}},
        sample=(4, 1, 3, False, False),
        bounds=f"step = {_S} (constant); w >= 1, a, b UNBOUNDED integers; start/stop each possibly None",
        generalises="width, start, stop over all integers (linear integer arithmetic)",
        outside="steps beyond +-6",
    )(_f)


@harness("C03", args="w: int, i: int", pre=["w >= 1"], tiers=_T, sample=(4, -4),
         bounds="w >= 1, i UNBOUNDED integers", generalises="width and index over all integers")
def index_kernel(w, i):
    try:
        sl = h.Signal(name="s", width=w)[i]
        got_w, top, bot, step = sl.width, sl.top, sl.bot, sl.step
    except Exception:
        env.reached()
        return not (-w <= i < w)
    env.reached()
    if not (-w <= i < w):
        return False
    want = i if i >= 0 else i + w
    return got_w == 1 and bot == want and top == want + 1 and step == 1


@harness("C03", args="w1: int, w2: int, w3: int", pre=["w1 >= 1", "w2 >= 1", "w3 >= 1"], tiers=_T,
         sample=(1, 2, 3), bounds="three part widths, UNBOUNDED", generalises="part widths over all positive integers")
def concat_width(w1, w2, w3):
    a, b, c = h.Signal(name="a", width=w1), h.Signal(name="b", width=w2), h.Signal(name="c", width=w3)
    env.reached()
    return (h.Concat(a, b, c).width == w1 + w2 + w3 and h.Concat(h.Concat(a, b), c).width == w1 + w2 + w3
            and h.Concat(a[0:w1], h.Concat(b, c)).width == w1 + w2 + w3)
