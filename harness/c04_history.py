"""C04: the last connection made to a port is the one that gets built.
A symbolic history of k operations (connect-by-call, by-assignment, connect(), replace(), disconnect())
on two ports (one bus port, one bundle-valued port) of an Instance / InstanceArray, every kind of
connectable appearing as the replaced and as the replacing object.  Oracle: the reference semantics of
the FINAL mapping only (vlib/dsl.py), compared with the package exported after the whole history."""
from vlib import env
from vlib.spec import harness, parts_over, parts_product
import hdl21 as h
from vlib.dsl import *
from vlib.build import Builder
from vlib import designcheck as dc

NA, NB = 9, 6  # number of connectable options for the bus port / the bundle port


def _design(w, arr):
    B = BundleDef("B", [("x", w), ("y", 1)])
    N = BundleDef("N", [("z", 1)], [("b", B)])
    cell = Ext("Cell", [("a", w), ("b", 1)])
    leaf = Mod("BLeafW", ports=[("a", w), ("g", 1)], buns=[("bb", B, True), ("bc", B, True)], insts=[
        Inst("u", cell, {"a": Sig("a"), "b": Sig("g")}),
        Inst("v", cell, {"a": BRef("bb", ("x",)), "b": BRef("bb", ("y",))}),
        Inst("v2", cell, {"a": BRef("bc", ("x",)), "b": BRef("bc", ("y",))})])
    top = Mod("Top", ports=[("s", w), ("t", w), ("bus", 2 * w), ("uu", w), ("g1", 1)],
              buns=[("b1", B, False), ("pb", B, True), ("nn", N, False)],
              insts=[Inst("j", leaf, {"a": Sig("uu"), "g": Sig("g1"), "bb": Bun("b1"), "bc": Bun("b1")}),
                     Inst("i", leaf, {"g": Sig("g1")}, kind="array" if arr else "inst", n=2 if arr else 1),
                     Inst("k", cell, {"a": Sig("t"), "b": Sig("g1")}),   # further instances that may come to REFERENCE i's bus port
                     Inst("k2", cell, {"a": Sig("t"), "b": Sig("g1")}),
                     Inst("k3", cell, {"a": Sig("t"), "b": Sig("g1")}),  # (... reads the port once more when the history is over, if it was referenced before)
                     Inst("p0", Prim("R", dict(r=1)), {"p": Idx(BRef("b1", ("x",)), 0), "n": BRef("nn", ("b", "y"))}),
                     Inst("p1", Prim("R", dict(r=1)), {"p": Idx(BRef("nn", ("b", "x")), 0), "n": BRef("nn", ("z",))})])
    return top


def _opt_a(c, w):
    if c == 0: return Sig("s")
    if c == 1: return Sig("t")
    if c == 2: return Slc(Sig("bus"), 0, w)
    if c == 3: return Slc(Sig("bus"), w, 2 * w)
    if c == 4: return Cat((Slc(Sig("t"), 0, w - 1), Idx(Sig("s"), -1)))   # needs w >= 2
    if c == 5: return PRef("j", "a")
    if c == 6: return NC(1)
    if c == 7: return NC(2, "ncx")
    return BRef("b1", ("x",))   # a member of a bundle instance (a bundle reference as the source of the port)


def _opt_b(c, w):
    if c == 0: return Bun("b1")
    if c == 1: return Bun("pb")
    if c == 2: return Anon((("x", Sig("s")), ("y", Sig("g1"))))
    if c == 3: return Anon((("x", Slc(Sig("bus"), w, 2 * w)), ("y", Idx(Sig("t"), 0))))
    if c == 4: return PRef("j", "bb")
    return BRef("nn", ("b",))


def _history(ops, w, arr):
    """returns (hdl21 top module, final mapping {port: DSL expr}) or None if the history itself is illegal"""
    top = _design(w, arr)
    b = Builder()
    m = b.bmod(top)
    hi = m.get("i")
    ncs = {}
    final = {"g": Sig("g1")}
    kfinal = {"k": Sig("t"), "k2": Sig("t")}
    nref = 0
    for op, port, c in ops:
        if op == 5:  # another instance takes a reference to the port whose connection is being edited
            if arr:
                return None
            who = ("k", "k2")[nref % 2]
            nref += 1
            m.get(who).connect("a", hi.a)
            kfinal[who] = PRef("i", "a")
            continue
        pname = ("a", "bb", "bc")[port]  # (bb and bc are two bundle ports of one type: one object may sit on both)
        e = _opt_a(c, w) if port == 0 else _opt_b(c, w)
        if op in (3, 4) and pname not in final:
            return None  # replace / disconnect of an unconnected port raise KeyError by contract
        if op == 4:
            hi.disconnect(pname)
            del final[pname]
            continue
        b.dict_anon = (op == 2)  # connect() receives anonymous bundles in their dict shorthand
        x = b.expr(m, e, ncs)
        b.dict_anon = False
        if op == 0:
            hi(**{pname: x})
        elif op == 1:
            setattr(hi, pname, x)
        elif op == 2:
            hi.connect(pname, x)
        else:
            hi.replace(pname, x)
        final[pname] = e
    # complete the mapping (part of the history)
    if "a" not in final:
        hi.connect("a", b.expr(m, Sig("s"), ncs)); final["a"] = Sig("s")
    if "bb" not in final:
        hi.connect("bb", b.expr(m, Bun("pb"), ncs)); final["bb"] = Bun("pb")
    if "bc" not in final:
        hi.connect("bc", b.expr(m, Bun("b1"), ncs)); final["bc"] = Bun("b1")
    if nref and not arr:
        # the port is read once more after the whole history (the same reference as the earlier ones, whatever was edited since)
        m.get("k3").connect("a", hi.a)
        kfinal["k3"] = PRef("i", "a")
    top.insts[1].conns = final
    top.insts[2].conns = {"a": kfinal["k"], "b": Sig("g1")}
    top.insts[3].conns = {"a": kfinal["k2"], "b": Sig("g1")}
    top.insts[4].conns = {"a": kfinal.get("k3", Sig("t")), "b": Sig("g1")}
    if nref and isinstance(final["a"], NC):
        return None  # a no-connected port that is also referenced: not a valid final mapping
    return m, top


def _run(ops, w, arr):
    env.reset_all()
    r = _history(ops, w, arr)
    if r is None:
        return True
    m, top = r
    pkg = h.to_proto(m)
    top_c = env.deep_realize(top)
    with env.notrace():
        env.COUNTS["reached"] += 1
        ok, why = dc.compare(top_c, pkg, riders=True, spice=True)
        dc.LAST["why"] = why
        return ok


def _legal(c, port, w, arr):
    if port == 0:
        if c == 4 and w < 2: return False
        if arr and c >= 4: return False  # array port: signals and slices (port references / no-connects on arrays are not in scope)
        return c < NA
    if arr and c >= 2: return False
    return c < NB  # (ports 1 and 2: the two bundle ports)


_ARGS = "o0: int, p0: int, c0: int, o1: int, p1: int, c1: int, o2: int, p2: int, c2: int, w: int, arr: bool"
_PRE = ["0 <= o0 <= 2 or o0 == 5", "o0 != 5 or (p0 == 0 and c0 == 0)", "0 <= p0 <= 2", "0 <= c0 <= 8", "0 <= o1 <= 5", "0 <= p1 <= 2", "0 <= c1 <= 8", "0 <= o2 <= 5", "0 <= p2 <= 2", "0 <= c2 <= 8", "1 <= w <= 2", "o1 != 5 or (p1 == 0 and c1 == 0)", "o2 != 5 or (p2 == 0 and c2 == 0)"]


@harness("C04", args=_ARGS, pre=_PRE,
         tiers={"quick": {"timeout": 170, "pre": ["o0 == 1 or o0 == 5", "c2 == 0 or o2 == 5", "w == 2", "arr == False", "p2 <= 1"],
                          "parts": [(f"p{p}_c{c}", f"o0 == 1 and p0 == {p} and c0 == {c}") for p in (0, 1) for c in range(9) if not (p >= 1 and c >= NB)] + [("ref", "o0 == 5")]},
                "thorough": {"timeout": 600, "pre": ["c2 <= 1", "arr == False or (c0 <= 3 and c1 <= 3 and c2 <= 1)"], "parts": [(f"p{p}_c{c}_o{o}_q{q}", f"p0 == {p} and c0 == {c} and o1 == {o} and p1 == {q}") for p in (0, 1, 2) for c in range(9) for o in range(6) for q in (0, 1, 2)
                                       if not (p >= 1 and c >= NB) and not (o == 5 and q != 0) and not (o in (3, 4) and q != p)]}},
         sample=(1, 0, 5, 1, 0, 1, 2, 0, 0, 2, False),
         bounds="histories of 3 operations (+ completion) on the bus port and the two bundle ports (one bundle type: one object may be tied to both) of an Instance (and an InstanceArray with signal/slice/bundle connections); op in {call, setattr, connect, replace, disconnect, a third instance taking a reference to the edited port; a referenced port is read once more when the history is over}; bus-port connectables: 2 signals, 2 bus halves, concatenation, port reference, unnamed / named no-connect, bundle member; bundle-port connectables: internal bundle, bundle port, 2 anonymous bundles, port reference, reference into a nested bundle; w <= 2 (quick tier: w = 2, Instance only, first operation by assignment, third operation's connectable fixed, the second bundle port only in the second operation; thorough: all first operations, arrays, two third connectables)",
         generalises="operation / port / connectable selectors (exhaustive path enumeration); width", outside="histories longer than 3; more than two ports; Pair histories")
def histories(o0, p0, c0, o1, p1, c1, o2, p2, c2, w, arr):
    P = env.pick
    ops = [(P(o0, 0, 5), P(p0, 0, 2), P(c0, 0, 8)), (P(o1, 0, 5), P(p1, 0, 2), P(c1, 0, 8)), (P(o2, 0, 5), P(p2, 0, 2), P(c2, 0, 8))]
    arr, w = bool(arr), P(w, 1, 2)
    with env.notrace():  # every input is a selector (or a width in {1,2}): solver-enumerated, each history runs concretely
        for op, port, c in ops:
            if op not in (4, 5) and not _legal(c, port, w, arr):
                return True
        return _run(ops, w, arr)
