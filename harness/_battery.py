"""Hand-picked DSL designs (concrete): used to validate the oracle/readers against the real code
('push the repo's own kinds of inputs through both') and as concrete seeds of C01/C06/C11."""
from vlib.dsl import *

R = Prim("R", dict(r=1))
B = BundleDef("B", [("x", 2), ("y", 1)])
N = BundleDef("N", [("z", 1)], [("b", B)])


def leaf():
    return Mod("Leaf", ports=[("a", 2), ("g", 1)], sigs=[("m", 1)], insts=[
        Inst("r0", R, {"p": Idx(Sig("a"), 0), "n": Sig("m")}),
        Inst("r1", R, {"p": Sig("m"), "n": Idx(Sig("a"), 1)}),
        Inst("r2", R, {"p": Sig("g"), "n": Sig("m")})])


def bleaf():
    return Mod("BLeaf", ports=[("g", 1)], buns=[("b", B, True)], insts=[
        Inst("r0", R, {"p": Slc(BRef("b", ("x",)), 0, 1), "n": BRef("b", ("y",))}),
        Inst("r1", R, {"p": Slc(BRef("b", ("x",)), 1, 2), "n": Sig("g")})])


def cell():
    return Mod("Cell", ports=[("q", 1), ("g", 1)], insts=[Inst("r", R, {"p": Sig("q"), "n": Sig("g")})])


def T(insts, sigs=(), ports=(), buns=()):
    return Mod("Top", ports=list(ports), sigs=list(sigs), buns=list(buns), insts=insts)


def battery():
    L, BL, C = leaf(), bleaf(), cell()
    D = DIFF
    mid = Mod("Mid", ports=[("a", 2), ("g", 1)], sigs=[("k", 2)], insts=[
        Inst("l0", L, {"a": Sig("a"), "g": Sig("g")}), Inst("l1", L, {"a": Sig("k"), "g": Idx(Sig("a"), 0)}),
        Inst("l2", L, {"a": PRef("l1", "a"), "g": Sig("g")})])
    return [
        ("plain", T([Inst("i0", L, {"a": Sig("s"), "g": Sig("t")})], sigs=[("s", 2), ("t", 1)])),
        ("slice", T([Inst("i0", L, {"a": Slc(Sig("bus"), 1, 3), "g": Idx(Sig("bus"), 0)})], sigs=[("bus", 4)])),
        ("concat", T([Inst("i0", L, {"a": Cat((Sig("t"), Sig("u"))), "g": Sig("t")})], sigs=[("t", 1), ("u", 1)])),
        ("slice of concat", T([Inst("i0", L, {"a": Slc(Cat((Sig("t"), Sig("bus"))), 1, 3), "g": Sig("t")})], sigs=[("t", 1), ("bus", 3)])),
        ("portref to signal-tied", T([Inst("i0", L, {"a": Sig("s"), "g": Sig("t")}), Inst("i1", L, {"a": PRef("i0", "a"), "g": PRef("i0", "g")})], sigs=[("s", 2), ("t", 1)])),
        ("portref open", T([Inst("i0", L, {"a": Open, "g": Open}), Inst("i1", L, {"a": PRef("i0", "a"), "g": PRef("i0", "g")})])),
        ("portref to slice-tied", T([Inst("i0", L, {"a": Slc(Sig("bus"), 0, 2), "g": Sig("t")}), Inst("i1", L, {"a": PRef("i0", "a"), "g": Sig("t")}), Inst("rp", R, {"p": Idx(Sig("bus"), 0), "n": Sig("t")})], sigs=[("bus", 4), ("t", 1)])),
        ("portref cycle", T([Inst("i0", L, {"a": PRef("i1", "a"), "g": Sig("t")}), Inst("i1", L, {"a": PRef("i0", "a"), "g": Sig("t")})], sigs=[("t", 1)])),
        ("noconn", T([Inst("i0", L, {"a": NC(1), "g": Sig("t")}), Inst("i1", L, {"a": NC(2, "nc"), "g": Sig("t")})], sigs=[("t", 1)])),
        ("concat of portref slices", T([Inst("i0", L, {"a": Cat((Idx(PRef("i1", "a"), 1), Idx(PRef("i1", "a"), 0))), "g": Sig("t")}), Inst("i1", L, {"a": Open, "g": Sig("t")})], sigs=[("t", 1)])),
        ("bundle inst", T([Inst("i0", BL, {"b": Bun("bb"), "g": Sig("t")})], sigs=[("t", 1)], buns=[("bb", B, False)])),
        ("bundle ref", T([Inst("i0", BL, {"b": BRef("nn", ("b",)), "g": BRef("nn", ("z",))})], buns=[("nn", N, False)])),
        ("anon bundle", T([Inst("i0", BL, {"b": Anon((("x", Sig("s")), ("y", Sig("t")))), "g": Sig("t")})], sigs=[("s", 2), ("t", 1)])),
        ("anon w/ concat+bref", T([Inst("i0", BL, {"b": Anon((("x", Cat((Sig("t"), Sig("u")))), ("y", BRef("bb", ("y",))))), "g": Sig("t")})], sigs=[("t", 1), ("u", 1)], buns=[("bb", B, False)])),
        ("bundle port passthrough", T([Inst("i0", BL, {"b": Bun("pb"), "g": Sig("t")})], ports=[("t", 1)], buns=[("pb", B, True)])),
        ("portref to bundle port", T([Inst("i0", BL, {"b": Bun("bb"), "g": Sig("t")}), Inst("i1", BL, {"b": PRef("i0", "b"), "g": Sig("t")})], sigs=[("t", 1)], buns=[("bb", B, False)])),
        ("array broadcast", T([Inst("arr", L, {"a": Sig("s"), "g": Sig("t")}, kind="array", n=3)], sigs=[("s", 2), ("t", 1)])),
        ("array per-element", T([Inst("arr", L, {"a": Sig("w6"), "g": Sig("t3")}, kind="array", n=3)], sigs=[("w6", 6), ("t3", 3)])),
        ("array concat", T([Inst("arr", L, {"a": Cat((Sig("w4"), Slc(Sig("w6"), 0, 2))), "g": Sig("t")}, kind="array", n=3)], sigs=[("w6", 6), ("w4", 4), ("t", 1)])),
        ("pair on diff", T([Inst("pr", C, {"q": Bun("d"), "g": Sig("v")}, kind="pair")], ports=[("v", 1)], buns=[("d", D, False)])),
        ("pair swapped anon", T([Inst("pr", C, {"q": Anon((("p", BRef("d", ("n",))), ("n", BRef("d", ("p",))))), "g": Sig("v")}, kind="pair"), Inst("pr2", C, {"q": Bun("d"), "g": Sig("v")}, kind="pair")], ports=[("v", 1)], buns=[("d", D, False)])),
        ("pair scalar", T([Inst("pr", C, {"q": Sig("v"), "g": Sig("v")}, kind="pair")], ports=[("v", 1)])),
        ("hier shared", T([Inst("m0", mid, {"a": Sig("s"), "g": Sig("t")}), Inst("m1", mid, {"a": Sig("s"), "g": PRef("m0", "g")}), Inst("lx", L, {"a": Sig("s"), "g": Sig("t")})], sigs=[("s", 2)], ports=[("t", 1)])),
        ("strided slice", T([Inst("i0", L, {"a": Slc(Sig("bus"), 0, 4, 2), "g": Idx(Sig("bus"), -1)})], sigs=[("bus", 4)])),
        ("reversed slice", T([Inst("i0", L, {"a": Slc(Sig("bus"), 2, 0, -1), "g": Idx(Sig("bus"), 0)})], sigs=[("bus", 4)])),
        ("slice of slice", T([Inst("i0", L, {"a": Slc(Slc(Sig("bus"), 1, 4), 1, 3), "g": Idx(Slc(Sig("bus"), 1, 4), 0)})], sigs=[("bus", 5)])),
        ("slice of reversed", T([Inst("i0", L, {"a": Slc(Slc(Sig("bus"), None, None, -1), 0, 2), "g": Idx(Sig("bus"), 0)})], sigs=[("bus", 4)])),
    ]
