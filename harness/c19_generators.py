"""C19: Series / MosStack / Wrapper build the documented topologies.
Series.func is called with a duck-typed params object so that nser = n stays SYMBOLIC through the
generator body, the instance array, the k*w:(k+1)*w slicing of the two offset concatenations and slice
resolution.  Oracle: the chain written explicitly in the design DSL (unit 0 / n-1 ends on the module's
series ports, unit k joins k+1 on bit k of a private bus, every other port in parallel), evaluated by
the independent reference semantics and compared with the exported package (+ C06 / C11 riders)."""
from vlib import env
from vlib.spec import harness, parts_over, parts_product
import hdl21 as h
from vlib.dsl import *
from vlib import designcheck as dc
from vlib.build import Builder

# unit cells: (DSL description, scalar port list, all ports)
def _units(w):
    B = BundleDef("B", [("x", w), ("y", 1)])
    cell = Ext("Cell", [("a", w), ("b", 1)])
    return {
        0: Prim("R", dict(r=1), ("p", "n")),
        1: Prim("ThreeTerminalResistor", dict(), ("p", "n", "b")),
        2: Prim("Mos", dict(), ("d", "g", "s", "b")),
        3: Ext("X3", [("a", 1), ("b", 1), ("c", 1)], params=None),
        4: Mod("UnitM", ports=[("a", 1), ("b", 1), ("bus", w)], buns=[("bb", B, True)], insts=[
            Inst("r", Prim("R", dict(r=2)), {"p": Sig("a"), "n": Sig("b")}),
            Inst("c", cell, {"a": Sig("bus"), "b": BRef("bb", ("y",))}),
            Inst("c2", cell, {"a": BRef("bb", ("x",)), "b": Sig("a")})]),
        # a unit whose port carries the name the generator likes for its own internal net
        5: Ext("XI", [("i", 1), ("i_", 1), ("o", 1)], params=None),  # (... and for the first name it would retry with)
    }


def _scalar_ports(u):
    return [p for p, (k, x) in port_table(u).items() if k == "sig" and x == 1]


def _expected(u, n, p1, p2, name):
    """the documented topology, in the DSL"""
    pt = port_table(u)
    ports = [(p, x) for p, (k, x) in pt.items() if k == "sig"]
    buns = [(p, x, True) for p, (k, x) in pt.items() if k == "bun"]
    insts = []
    for k in range(n):
        conns = {}
        for p, (kind, x) in pt.items():
            if p == p1:
                conns[p] = Sig(p1) if k == 0 else Idx(Sig("chain_"), k - 1)
            elif p == p2:
                conns[p] = Sig(p2) if k == n - 1 else Idx(Sig("chain_"), k)
            else:
                conns[p] = Sig(p) if kind == "sig" else Bun(p)
        insts.append(Inst("inner" if n == 1 else f"units_{k}", u, conns))
    sigs = [("chain_", n - 1)] if n > 1 else []  # (the private bus; its name is the generator's business)
    return Mod(name, ports=ports, sigs=sigs, buns=buns, insts=insts)


def _same_interface(m, ud):
    """'The generated Module includes the same ports as unit': names of signal and bundle ports, before elaboration"""
    with env.notrace():
        have = sorted(list(m.ports.keys()) + list(m.bundle_ports.keys()))
        want = sorted(port_table(ud).keys())
        dc.LAST["why"] = f"interface {have} != unit's {want}"
        return have == want


class _Duck:
    def __init__(self, **kw):
        self.__dict__.update(kw)


def _series(u, n, i, j, by_name, w):
    env.reset_all()
    units = _units(w)
    ud = units[u]
    sp = _scalar_ports(ud)
    p1, p2 = sp[i], sp[j]
    from hdl21.generators import Series
    hu = Builder().target(ud)
    conns = (p1, p2) if by_name else (hu.ports[p1], hu.ports[p2])
    if isinstance(hu, h.Module) and not by_name:
        h.elaborate(hu)  # the unit has been elaborated (its bundle port flattened) before the generator sees it
    if env.SYM and callable(getattr(Series, "func", None)):
        m = Series.func(_Duck(unit=hu, conns=conns, nser=n))  # n stays symbolic through the generator body
        if m.name is None:
            m.name = "S"
    else:
        m = Series(unit=hu, conns=conns, nser=env.realize(n))
    if not _same_interface(m, ud):
        return False
    pkg = h.to_proto(m)
    exp = env.deep_realize(_expected(ud, n, p1, p2, "S"))
    u = env.realize(u)
    with env.notrace():
        env.COUNTS["reached"] += 1
        ok, why = dc.compare(exp, pkg, riders=True, spice=(u not in (1, 2)))
        dc.LAST["why"] = why
        return ok


@harness("C19", also=("C06", "C11"), args="u: int, n: int, i: int, j: int, by_name: bool, w: int",
         pre=["0 <= u <= 5", "1 <= n", "0 <= i", "0 <= j", "i != j", "1 <= w <= 2",
              "i < (2, 3, 4, 3, 2, 3)[u] and j < (2, 3, 4, 3, 2, 3)[u]"],
         tiers={"quick": {"timeout": 170, "pre": ["n <= 3", "w == 1 or u == 4", "by_name == True or u == 0 or u == 4"], "parts": parts_over("u", range(6))},
                "thorough": {"timeout": 600, "pre": ["n <= 6"], "parts": [(f"u{u}_i{i}_n{n}", f"u == {u} and i == {i} and n == {n}") for u, cnt in enumerate((2, 3, 4, 3, 2, 3)) for i in range(cnt) for n in range(1, 7)]}},
         sample=(2, 3, 0, 2, True, 1),
         bounds="nser n in 1..3 (quick) / 1..6 (thorough); unit cells: R, 3-terminal resistor, Mos, external module, a module with a bus port and a bundle port, an external module with a port named `i`; every ordered pair of distinct scalar unit ports as the series pair; given by name or by Signal (module units given by Signal are elaborated before the call); the generated module's port names checked before elaboration",
         generalises="n (symbolic through Series.func, the instance array and slice resolution); port-pair selectors", outside="n > 6; series ports wider than one bit")
def series(u, n, i, j, by_name, w):
    return _series(u, n, i, j, by_name, w)


@harness("C19", also=("C06",), args="n: int", pre=["1 <= n <= 6"],
         tiers={"quick": {"timeout": 120, "pre": ["n <= 4"]}, "thorough": {"timeout": 300}}, sample=(3,),
         bounds="MosStack(nser=n) equals Series over drain and source (n in 1..4 quick, 1..6 thorough); realised at pydantic",
         generalises="n (enumerated)", outside="")
def mosstack(n):
    n = env.pick(n, 1, 6)
    with env.notrace():
        env._reset_all()
        from hdl21.generators import MosStack
        pkg = h.to_proto(MosStack(nser=n))
        env.COUNTS["reached"] += 1
        exp = _expected(_units(1)[2], n, "d", "s", "S")
        ok, why = dc.compare(exp, pkg, riders=True, spice=False)
        dc.LAST["why"] = why
        return ok


@harness("C19", also=("C06", "C11"), args="u: int, w: int, pre_elab: bool", pre=["0 <= u <= 5", "1 <= w <= 3"],
         tiers={"quick": {"timeout": 150, "pre": ["w <= 2"]}, "thorough": {"timeout": 600}}, sample=(4, 2, True),
         bounds="Wrapper(unit) for the 6 unit cells (bus width w<=2 / <=3), unit fresh or already elaborated",
         generalises="bus width", outside="")
def wrapper(u, w, pre_elab):
    env.reset_all()
    from hdl21.generators import Wrapper
    ud = _units(w)[u]
    hu = Builder().target(ud)
    if pre_elab and isinstance(hu, h.Module):
        h.elaborate(hu)
    m = Wrapper(hu)
    if not _same_interface(m, ud):
        return False
    pkg = h.to_proto(m)
    exp = env.deep_realize(_expected(ud, 1, "__none__", "__none__", "W"))
    u = env.realize(u)
    with env.notrace():
        env.COUNTS["reached"] += 1
        ok, why = dc.compare(exp, pkg, riders=True, spice=(u not in (1, 2)))
        dc.LAST["why"] = why
        return ok


def _revised(first, second, n1, n2, edit):
    """history: the generators run over a unit module, the designer then revises that module (a further port), and
    the generators run over it again with other parameters: the second result is built over the unit as it is NOW"""
    env._reset_all()
    from hdl21.generators import Series, Wrapper
    ports0 = [("a", 1), ("b", 1)]
    extra = [("en", 1)] if edit == 0 else [("bus", 2), ("a_", 1)]
    body = [Inst("r", Prim("R", dict(r=2)), {"p": Sig("a"), "n": Sig("b")})]
    hu = Builder().target(Mod("UnitR", ports=ports0, insts=body))
    if first == 0:
        Series(unit=hu, conns=("a", "b"), nser=n1)
    else:
        Wrapper(hu)
    for nm, wd in extra:
        hu.add(h.Port(name=nm, width=wd))
    ud = Mod("UnitR", ports=ports0 + extra, insts=body)
    if second == 0:
        m = Series(unit=hu, conns=("a", "b"), nser=n2)
        exp = _expected(ud, n2, "a", "b", "S")
    else:
        m = Wrapper(hu)
        exp = _expected(ud, 1, "__none__", "__none__", "W")
    if not _same_interface(m, ud):
        return False
    pkg = h.to_proto(m)
    env.COUNTS["reached"] += 1
    ok, why = dc.compare(exp, pkg, riders=True, spice=True)
    dc.LAST["why"] = why
    return ok


@harness("C19", also=("C06",), args="first: int, second: int, n1: int, n2: int, edit: int",
         pre=["0 <= first <= 1", "0 <= second <= 1", "1 <= n1 <= 2", "1 <= n2 <= 3", "0 <= edit <= 1", "first != second or (first == 0 and n1 != n2)"],
         tiers={"quick": {"timeout": 120}, "thorough": {"timeout": 300}}, sample=(0, 0, 2, 3, 0),
         bounds="history: Series (nser 1..2) or Wrapper over a unit module, the unit then gains a port (one scalar, or a bus and a scalar), then Series (nser 1..3) or Wrapper over it with other parameters: interface and topology follow the unit as revised",
         generalises="selectors (solver-enumerated)", outside="revisions other than added ports; a repeated call with EQUAL parameters (memoised by design, C09)")
def revised_unit(first, second, n1, n2, edit):
    P = env.pick
    first, second, n1, n2, edit = P(first, 0, 1), P(second, 0, 1), P(n1, 1, 2), P(n2, 1, 3), P(edit, 0, 1)
    with env.notrace():
        return _revised(first, second, n1, n2, edit)
