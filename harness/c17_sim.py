"""C17: simulation input export is complete and faithful.
A Sim is assembled from a symbolic attribute list (kind selectors, nesting depth, sweep kinds, save-target
forms, names, numeric fields from (coef, prefix)) in three construction styles, alone or in a list; the
oracle is an independent walk of the same description building the expected SimInput fields."""
import fractions
from decimal import Decimal
from pathlib import Path
from vlib import env
from vlib.spec import harness, parts_over, parts_product
import hdl21 as h
import hdl21.sim as hs
from hdl21.prefix import Prefix, Prefixed
import vlsir.spice_pb2 as vsp

NK = 17  # attribute kinds
PL = [-12, -9, -3, 0, 3, 6]
BYPOW = {p.value: p for p in Prefix}
WHY = {}


def _fail(msg):
    WHY["why"] = msg
    return False


def _num(coef, k):
    """a numeric field value in one of the Scalar forms + the float nearest its exact value"""
    form = k % 4
    pv = PL[k % len(PL)]
    exact = fractions.Fraction(coef) * fractions.Fraction(10) ** pv
    if form == 0:
        return Prefixed(number=Decimal(coef), prefix=BYPOW[pv]), float(exact)
    if form == 1:
        return coef, float(coef)
    if form == 2:
        return coef / 8, coef / 8
    return Decimal(coef).scaleb(pv), float(exact)


def _tb(nports, w):
    tb = h.Module(name="Tb%d_%d" % (nports, w))
    for k in range(nports):
        tb.add(h.Port(name="VSS" if k == 0 else "p%d" % k, width=w))
    tb.s = h.Signal()
    tb.t = h.Signal()
    if nports and w == 1:
        tb.r = h.primitives.R(r=1)(p=tb.s, n=tb.VSS)
        tb.r2 = h.primitives.R(r=1)(p=tb.t, n=tb.s)
        tb.v = h.primitives.Vdc(dc=1)(p=tb.t, n=tb.VSS)
    return tb


def _mk(kind, coef, k, tb, depth, named):
    """(hdl21 attribute, expected description) for one attribute"""
    nm = ("n%d_%d_d%d" % (kind, k, depth)) if named else None
    v, f = _num(coef, k)
    v2, f2 = _num(coef + 1, k + 1)
    sweeps = [lambda: (hs.LinearSweep(start=v, stop=v2, step=v), ("linear", f, f2, f)),
              lambda: (hs.LogSweep(start=v, stop=v2, npts=abs(coef) + 2), ("log", f, f2, float(abs(coef) + 2))),
              lambda: (hs.PointSweep(points=[v, v2, v]), ("points", [f, f2, f]))]
    sw, swe = sweeps[k % 3]()
    if kind == 0:
        return hs.Op(name=nm), ("an", "op", nm, {})
    if kind == 1:
        return hs.Dc(var="x%d" % k, sweep=sw, name=nm), ("an", "dc", nm, {"indep_name": "x%d" % k, "sweep": swe})
    if kind == 2:
        return hs.Ac(sweep=hs.LogSweep(start=v, stop=v2, npts=abs(coef) + 1), name=nm), ("an", "ac", nm, {"fstart": f, "fstop": f2, "npts": abs(coef) + 1})
    if kind == 3:
        return hs.Tran(tstop=v, tstep=v2 if k % 2 else None, name=nm), ("an", "tran", nm, {"tstop": f, "tstep": f2 if k % 2 else 0.0})
    if kind == 4:
        out = [tb.s, (tb.s, tb.t), "outname"][k % 3]
        src = [tb.v, "vsrc"][k % 2]
        op, on = [("s", ""), ("s", "t"), ("outname", "")][k % 3]
        return hs.Noise(output=out, input_source=src, sweep=hs.LogSweep(start=v, stop=v2, npts=3), name=nm), \
            ("an", "noise", nm, {"output_p": op, "output_n": on, "input_source": ["v", "vsrc"][k % 2], "fstart": f, "fstop": f2, "npts": 3})
    if kind in (5, 6):
        inner, iexp = [], []
        kinds = [0, 3, 1] if depth <= 0 else [5 if kind == 6 else 6, 3]
        for j, ik in enumerate(kinds[: 1 + k % 3] if depth <= 0 else kinds):
            a, e = _mk(ik, coef + j, k + j + 1, tb, depth - 1, named and j % 2 == 0)
            inner.append(a); iexp.append(e)
        if kind == 5:
            p = hs.Param(name="swp%d" % k, val=v)
            var = p if k % 2 else "y%d" % k
            return hs.SweepAnalysis(inner=inner, var=var, sweep=sw, name=nm), ("an", "sweep", nm, {"variable": "swp%d" % k if k % 2 else "y%d" % k, "sweep": swe, "an": iexp})
        return hs.MonteCarlo(inner=inner, npts=abs(coef) + 1, name=nm), ("an", "monte", nm, {"npts": abs(coef) + 1, "an": iexp})
    if kind == 7:
        return hs.CustomAnalysis(cmd="custom %d" % coef, name=nm), ("an", "custom", nm, {"cmd": "custom %d" % coef})
    if kind == 8:
        val = [v, "optstr", True, h.Literal("lit%d" % k)][k % 4]
        return hs.Options(value=val, name="opt%d" % k), ("opt", "opt%d" % k, val)
    if kind == 9:
        return hs.Include(path=Path("/inc/%d" % coef)), ("ctrl", "include", {"path": "/inc/%d" % coef})
    if kind == 10:
        return hs.Lib(path=Path("/lib/%d" % coef), section="sec%d" % k), ("ctrl", "lib", {"path": "/lib/%d" % coef, "section": "sec%d" % k})
    if kind == 11:
        form = k % 6
        targ = [hs.SaveMode.ALL, hs.SaveMode.NONE, tb.s, [tb.s, tb.t], "nm%d" % coef, ["a%d" % coef, "b"]][form]
        exp = [("mode", "ALL"), ("mode", "NONE"), ("signal", "s"), ("signal", "s,t"), ("signal", "nm%d" % coef), ("signal", "a%d,b" % coef)][form]
        return hs.Save(targ=targ), ("ctrl", "save", exp)
    if kind == 12:
        an = ["tran", "dc", "ac", "op"][k % 4]
        return hs.Meas(analysis=an, expr="expr%d" % coef, name="meas%d" % k), ("ctrl", "meas", {"analysis_type": an, "name": "meas%d" % k, "expr": "expr%d" % coef})
    if kind == 13:
        return hs.Param(name="par%d" % k, val=v), ("ctrl", "param", ("par%d" % k, v))
    if kind == 14:
        return h.Literal("literal %d" % coef), ("ctrl", "literal", "literal %d" % coef)
    if kind == 15:
        # a measurement given its analysis as an OBJECT, of each kind (the expected type name is written out here)
        lg = hs.LogSweep(start=v, stop=v2, npts=3)
        t, tname = [(hs.Tran(tstop=v, name="tr%d" % k), "tran"), (hs.Dc(var="x", sweep=sw, name="dcm%d" % k), "dc"),
                    (hs.Ac(sweep=lg, name="acm%d" % k), "ac"), (hs.Op(name="opm%d" % k), "op"),
                    (hs.Noise(output=tb.s, input_source="vsrc", sweep=lg, name="nzm%d" % k), "noise")][k % 5]
        return hs.Meas(analysis=t, expr="e", name="m%d" % k), ("ctrl", "meas", {"analysis_type": tname, "name": "m%d" % k, "expr": "e"})
    return hs.Op(), ("an", "op", None, {})


def _sweep_ok(ps, swe):
    kind = ps.WhichOneof("tp")
    if kind != swe[0]:
        return False
    if kind == "linear":
        return (ps.linear.start, ps.linear.stop, ps.linear.step) == swe[1:]
    if kind == "log":
        return (ps.log.start, ps.log.stop, ps.log.npts) == swe[1:]
    return list(ps.points.points) == swe[1]


def _an_ok(pa, exp, names):
    kind = pa.WhichOneof("an")
    _, ekind, nm, fields = exp
    if kind != ekind:
        return _fail(f"analysis kind {kind} != {ekind}")
    body = getattr(pa, kind)
    if nm is not None and body.analysis_name != nm:
        return _fail(f"analysis name {body.analysis_name} != {nm}")
    if not body.analysis_name or body.analysis_name in names:
        return _fail(f"analysis name {body.analysis_name!r} empty or not distinct")
    names.add(body.analysis_name)
    for k, val in fields.items():
        if k == "sweep":
            if not _sweep_ok(body.sweep, val):
                return _fail(f"{ekind}.sweep {body.sweep} != {val}")
        elif k == "an":
            if len(body.an) != len(val):
                return _fail(f"{ekind}: {len(body.an)} inner analyses, expected {len(val)}")
            for pa2, e2 in zip(body.an, val):
                if not _an_ok(pa2, e2, names):
                    return False
        elif getattr(body, k) != val:
            return _fail(f"{ekind}.{k} = {getattr(body, k)!r}, expected {val!r}")
    return True


def _check(inp, tb, exps):
    from vlib.pkgread import param_value, param_decimal
    if inp.top.split(".")[-1] != tb.name:
        return _fail(f"top {inp.top} does not name the testbench")
    if [m.name for m in inp.pkg.modules].count(inp.top) != 1:
        return _fail("testbench not present exactly once in the package")
    ans = [e for e in exps if e[0] == "an"]
    ctrls = [e for e in exps if e[0] == "ctrl"]
    opts = [e for e in exps if e[0] == "opt"]
    if (len(inp.an), len(inp.ctrls), len(inp.opts)) != (len(ans), len(ctrls), len(opts)):
        return _fail(f"counts {(len(inp.an), len(inp.ctrls), len(inp.opts))} != {(len(ans), len(ctrls), len(opts))}")
    names = set()
    for pa, e in zip(inp.an, ans):
        if not _an_ok(pa, e, names):
            return False
    for pc, e in zip(inp.ctrls, ctrls):
        kind = pc.WhichOneof("ctrl")
        if kind != e[1]:
            return _fail(f"control kind {kind} != {e[1]}")
        body = getattr(pc, kind)
        if kind in ("include", "lib", "meas"):
            for k, val in e[2].items():
                if getattr(body, k) != val:
                    return _fail(f"{kind}.{k} = {getattr(body, k)!r}, expected {val!r}")
        elif kind == "save":
            f, val = e[2]
            if f == "mode":
                if body.WhichOneof("save") != "mode" or vsp.Save.SaveMode.Name(body.mode) != val:
                    return _fail(f"save {body} != mode {val}")
            elif body.WhichOneof("save") != "signal" or body.signal != val:
                return _fail(f"save {body} != signal {val}")
        elif kind == "param":
            nm, v = e[2]
            if body.name != nm or param_decimal(body.value) != h.scalar.to_scalar(v).number * Decimal(10) ** h.scalar.to_scalar(v).prefix.value:
                return _fail(f"param {body} != {nm}={v}")
        elif kind == "literal" and body != e[2]:
            return _fail(f"literal {body!r} != {e[2]!r}")
    for po, e in zip(inp.opts, opts):
        _, nm, val = e
        pv = param_value(po.value)
        if po.name != nm:
            return _fail("option name")
        if isinstance(val, bool):
            ok = pv[0] in ("bool_value", "int64_value") and bool(pv[1]) == val
        elif isinstance(val, str):
            ok = pv[1] == val
        elif isinstance(val, h.Literal):
            ok = pv == ("literal", val.text)
        else:
            sv = h.scalar.to_scalar(val)
            ok = param_decimal(po.value) == sv.number * Decimal(10) ** sv.prefix.value
        if not ok:
            return _fail(f"option {nm}: {pv} != {val!r}")
    return True


def _sim(kinds, coef, k0, style, depth, named, multi):
    env._reset_all()
    tb = _tb(1, 1)
    attrs, exps = [], []
    for j, kd in enumerate(kinds):
        if kd < 0:
            continue
        a, e = _mk(kd, coef + j, k0 + j, tb, depth, named)
        attrs.append(a); exps.append(e)
    if style == 0:
        sim = hs.Sim(tb=tb, attrs=attrs)
    elif style == 1:  # class-defined
        d = {"tb": tb}
        for j, a in enumerate(attrs):
            key = getattr(a, "name", None) or "attr%d" % j
            d[key] = a
            if getattr(exps[j], "__len__", None) and exps[j][0] == "an" and exps[j][2] is None:
                exps[j] = (exps[j][0], exps[j][1], key, exps[j][3])  # class-style names the analysis after its attribute
        sim = hs.sim(type("MySim", (), d))
    else:  # add-methods
        sim = hs.Sim(tb=tb)
        if k0 % 2:  # (the documented "one or more" form: everything in one call)
            sim.add(*attrs)
        else:
            for a in attrs:
                sim.add(a)
    env.COUNTS["reached"] += 1
    before = [(type(a).__name__, getattr(a, "name", None)) for a in attrs]
    try:
        if multi == 0:
            inp = hs.to_proto(sim)
            # exporting must not change the Sim: a second export is identical, and a Sim extended afterwards
            # (add-methods) still gets distinct names for its unnamed analyses
            if hs.to_proto(sim) != inp:
                return _fail("second export of the same Sim differs")
            if [(type(a).__name__, getattr(a, "name", None)) for a in sim.attrs] != before:
                return _fail("export modified the Sim's attributes")
            if style == 2:
                sim.op()
                sim.tran(tstop=1)
                names = [getattr(a, a.WhichOneof("an")).analysis_name for a in hs.to_proto(sim).an]
                if len(set(names)) != len(names) or "" in names:
                    return _fail(f"analysis names after extending the Sim: {names}")
                del sim.attrs[-2:]
        elif multi == 2 and any(e[0] == "an" and e[2] is None for e in exps):
            # a second Sim re-using this Sim's (unnamed) analysis objects behind an unnamed Op
            shared = [a for a, e in zip(attrs, exps) if e[0] == "an"]
            other = hs.Sim(tb=tb, attrs=[hs.Op()] + shared)
            inps = hs.to_proto([sim, other])
            inp = inps[0]
            names = [getattr(a, a.WhichOneof("an")).analysis_name for a in inps[1].an]
            if len(set(names)) != len(names) or "" in names:
                return _fail(f"a Sim sharing analysis objects got names {names}")
        else:
            other = hs.Sim(tb=tb if multi == 1 else _tb(1, 1).__class__ and _other_tb(), attrs=[hs.Op()])
            inps = hs.to_proto([sim, other])
            inp = inps[0]
            if multi == 1 and [m.name for m in inp.pkg.modules].count(inp.top) != 1:
                return _fail("shared testbench exported more than once")
    except Exception as ex:
        return _fail("export raised " + repr(ex)[:250])
    return _check(inp, tb, exps)


def _other_tb():
    tb = h.Module(name="OtherTb")
    tb.VSS = h.Port()
    tb.r = h.primitives.R(r=2)(p=tb.VSS, n=tb.VSS)
    return tb


def _bad_tb(nports, w, bp=False):
    env._reset_all()
    tb = _tb(nports, w)
    if bp:  # a bundle-valued port besides the scalar ones (flattens into further ports)
        tb.io = h.Diff(port=True)
        tb.rio = h.primitives.R(r=1)(p=tb.io.p, n=tb.io.n)
    env.COUNTS["reached"] += 1
    good = nports == 1 and w == 1 and not bp
    try:
        hs.to_proto(hs.Sim(tb=tb, attrs=[hs.Op()]))
    except Exception:
        return not good or _fail("a valid testbench was rejected")
    return good or _fail(f"testbench with {nports} ports of width {w} accepted")


@harness("C17", args="k1: int, k2: int, k3: int, coef: int, k0: int, style: int, depth: int, named: bool, multi: int",
         pre=[f"0 <= k1 < {NK}", f"-1 <= k2 < {NK}", f"-1 <= k3 < {NK}", "-5 <= coef <= 40", "0 <= k0 <= 11", "0 <= style <= 2", "0 <= depth <= 2", "0 <= multi <= 2"],
         tiers={"quick": {"timeout": 170, "pre": ["k3 == -1", "coef == 7 or coef == -3", "depth <= 1", "multi == 0 or k2 == -1", "k0 == 1 or k0 == 6 or ((k1 == 11 or k1 == 4 or k1 == 15) and k0 <= 5)", "k2 in (-1, 0, 2, 5, 8, 11, 13, 14)"],
                          "parts": parts_product(parts_over("style", range(3)), [("g%d" % g, "%d <= k1 < %d" % (3 * g, 3 * g + 3)) for g in range(6)])},
                "thorough": {"timeout": 600, "pre": ["coef % 9 == 7 or coef == -3", "multi == 0 or k3 == -1"],
                             "parts": parts_product(parts_over("style", range(3)), parts_over("k1", range(NK)), parts_over("k2", range(-1, NK)), parts_over("k0", range(12)))}},
         sample=(5, 11, -1, 7, 3, 1, 1, True, 1),
         bounds=f"Sims of 1-2 (quick) / 1-3 (thorough) attributes over {NK} kinds (8 analyses incl. nested sweep / Monte-Carlo to depth 2, options of 4 value types, include, lib, save in all 6 target forms, measurements by name and by analysis, parameters, literals); 3 sweep kinds; numeric fields as Prefixed / int / float / Decimal over 6 prefixes; named or unnamed analyses; procedural / class-defined / add-method construction; alone, or in a list sharing or not sharing the testbench",
         generalises="selectors only (solver-enumerated; each Sim is exported concretely)", outside="longer attribute lists; deeper nesting; strings other than the generated names")
def sim_export(k1, k2, k3, coef, k0, style, depth, named, multi):
    P = env.pick
    k1, k2, k3 = P(k1, 0, NK - 1), P(k2, -1, NK - 1), P(k3, -1, NK - 1)
    coef, k0, style, depth, multi = P(coef, -5, 40), P(k0, 0, 11), P(style, 0, 2), P(depth, 0, 2), P(multi, 0, 2)
    named = bool(named)
    with env.notrace():
        return _sim([k1, k2, k3], coef, k0, style, depth, named, multi)


@harness("C17", args="nports: int, w: int, bp: bool", pre=["0 <= nports <= 3", "1 <= w <= 3"], tiers={"quick": {"timeout": 120}}, sample=(1, 1, True),
         bounds="testbench interface: 0..3 ports of width 1..3, with or without a bundle-valued port: exactly one scalar port (and nothing else) is accepted, everything else rejected; alone and in a list",
         generalises="port count and width (enumerated)", outside="")
def testbench_interface(nports, w, bp):
    nports, w, bp = env.pick(nports, 0, 3), env.pick(w, 1, 3), bool(bp)
    with env.notrace():
        return _bad_tb(nports, w, bp)
