"""C09: generator calls are memoised and their modules uniquely named.
name_injective: the naming function reached through the PUBLIC ExternalModuleCall.name / generated
Module.name, with SYMBOLIC STRING / int parameter values (a duck-typed param class keeps the values
symbolic: pydantic would reject proxies; the replay uses real @h.paramclass classes)."""
from typing import Optional
from vlib import env
from vlib.spec import harness, parts_over, parts_product
import hdl21 as h
from hdl21.params import Param

SHAPES = {
    0: (("a", str), ("b", str)),
    1: (("a", str), ("b", int)),
    2: (("a", Optional[str]), ("b", str)),
    3: (("a", int), ("b", float)),
    4: (("a", Optional[str]), ("b", Optional[int])),
}
_REAL = {}


def _ptype(shape):
    fields = SHAPES[shape]
    if env.SYM:
        class Duck:
            __paramclass__ = True
            __params__ = {n: Param(dtype=t, desc=n) for n, t in fields}

            def __init__(self, **kw):
                for n, _ in fields:
                    setattr(self, n, kw[n])

            def __eq__(self, o):
                return all(getattr(self, n) == getattr(o, n) for n, _ in fields)

            def __hash__(self):
                return 0
        return Duck
    if shape not in _REAL:
        ns = {"__annotations__": {}}
        for n, t in fields:
            ns[n] = h.Param(dtype=t, desc=n)
        _REAL[shape] = h.paramclass(type(f"P{shape}", (), ns))
    return _REAL[shape]


def _vals(shape, s1, s2, i1, f1, none1):
    if shape == 0: return dict(a=s1, b=s2)
    if shape == 1: return dict(a=s1, b=i1)
    if shape == 2: return dict(a=None if none1 else s1, b=s2)
    if shape == 3: return dict(a=i1, b=float(f1) / 4)
    return dict(a=None if none1 else s1, b=None if (i1 < 0) else i1)


def _plain(s):
    """printable ASCII without quotes and backslashes: the strings for which repr(s) == "'" + s + "'" """
    for c in s:
        o = ord(c)  # (ordering comparisons between symbolic characters make CrossHair realise them; ord() does not)
        if o < 32 or o > 126 or o == 39 or o == 34 or o == 92:
            return False
    return True


def _inj(shape, s1, s2, i1, f1, n1, t1, t2, j1, g1, m1):
    env.reset_all()
    P = _ptype(shape)
    E = h.ExternalModule(name="E", port_list=[], paramtype=P)
    va, vb = _vals(shape, s1, s2, i1, f1, n1), _vals(shape, t1, t2, j1, g1, m1)
    na, nb = E(P(**va)).name, E(P(**vb)).name
    env.reached()
    same = all(va[k] == vb[k] and (va[k] is None) == (vb[k] is None) for k in va)
    return (na == nb) == same


env.stub_str_repr()
_Z = "i1 == 0 and j1 == 0 and f1 == 0 and g1 == 0 and n1 == False and m1 == False"


@harness("C09", args="shape: int, s1: str, s2: str, i1: int, f1: int, n1: bool, t1: str, t2: str, j1: int, g1: int, m1: bool",
         pre=["0 <= shape <= 4", "_plain(s1) and _plain(s2) and _plain(t1) and _plain(t2)"],
         tiers={"quick": {"timeout": 330, "pre": ["len(s1) <= 3 and len(s2) <= 2 and len(t1) <= 3 and len(t2) <= 2"],
                          "parts": [("shape0", "shape == 0 and " + _Z),
                                    ("shape1", "shape == 1 and len(s2) == 0 and len(t2) == 0 and 0 <= i1 <= 3 and 0 <= j1 <= 3 and f1 == 0 and g1 == 0 and n1 == False and m1 == False"),
                                    ("shape2a", "shape == 2 and n1 == False and m1 == False and len(s1) <= 2 and len(t1) <= 2 and i1 == 0 and j1 == 0 and f1 == 0 and g1 == 0"),
                                    ("shape2b", "shape == 2 and n1 == True and m1 == False and i1 == 0 and j1 == 0 and f1 == 0 and g1 == 0"),
                                    ("shape2c", "shape == 2 and m1 == True and i1 == 0 and j1 == 0 and f1 == 0 and g1 == 0"),
                                    ("shape4", "shape == 4 and len(s2) == 0 and len(t2) == 0 and -1 <= i1 <= 1 and -1 <= j1 <= 1 and f1 == 0 and g1 == 0")]},
                # (thorough partitions fix the lengths of the two first fields: a partition must exhaust within ~600 s)
                "thorough": {"timeout": 600, "pre": ["len(s2) <= 3 and len(t2) <= 3"],
                             "parts": [(f"shape0_l{a}{b}", f"shape == 0 and len(s1) == {a} and len(t1) == {b} and " + _Z) for a in range(5) for b in range(5)] +
                                      [(f"shape1_l{a}{b}", f"shape == 1 and len(s1) == {a} and len(t1) == {b} and len(s2) == 0 and len(t2) == 0 and -2 <= i1 <= 12 and -2 <= j1 <= 12 and f1 == 0 and g1 == 0 and n1 == False and m1 == False") for a in range(5) for b in range(5)] +
                                      [(f"shape2_l{a}{b}_{int(n)}{int(m)}", f"shape == 2 and len(s1) == {a} and len(t1) == {b} and n1 == {n} and m1 == {m} and i1 == 0 and j1 == 0 and f1 == 0 and g1 == 0") for a in range(4) for b in range(4) for n in (False, True) for m in (False, True)] +
                                      [(f"shape4_l{a}{b}", f"shape == 4 and len(s1) == {a} and len(t1) == {b} and len(s2) == 0 and len(t2) == 0 and -1 <= i1 <= 9 and -1 <= j1 <= 9 and f1 == 0 and g1 == 0") for a in range(4) for b in range(4)]}},
         sample=(0, "x b=y", "z", 0, 0, False, "x", "y b=z", 0, 0, False),
         bounds="param-class shapes (str,str) (str,int) (Optional[str],str) (Optional[str],Optional[int]); SYMBOLIC strings of length <= 3 / <= 2 per field (quick), <= 4 / <= 3 (thorough) over printable ASCII without quotes and backslash; small ints; None flags",
         generalises="parameter strings as symbolic strings (spaces, '=', any printable character)", outside="strings with quotes / backslashes / non-ASCII (see name_injective_enum); longer strings; names past the 128-character switch (md5 of JSON: collision-freeness of md5 is assumed)")
def name_injective(shape, s1, s2, i1, f1, n1, t1, t2, j1, g1, m1):
    return _inj(shape, s1, s2, i1, f1, n1, t1, t2, j1, g1, m1)


ALPHA = ["'", '"', chr(92), " ", "=", "a", "None", chr(10), "' b='", ""]


def _word(code):
    """two letters of ALPHA (10 x 10 codes)"""
    return ALPHA[code // 10] + ALPHA[code % 10]


@harness("C09", args="shape: int, c1: int, c2: int, d1: int, d2: int, i1: int, j1: int, n1: bool, m1: bool",
         pre=["0 <= shape <= 4", "0 <= c1 < 100", "0 <= c2 < 100", "0 <= d1 < 100", "0 <= d2 < 100", "-1 <= i1 <= 2", "-1 <= j1 <= 2"],
         tiers={"quick": {"timeout": 170, "pre": ["c2 == 59 and (d2 == 59 or d2 == 85 or d2 == 89)", "c1 % 10 == 9 or c1 >= 90", "d1 % 10 == 9 or d1 >= 90", "i1 == 0 and j1 == 0 and n1 == False and m1 == False"],
                          "parts": parts_over("shape", range(5))},
                "thorough": {"timeout": 600, "pre": ["c2 % 10 == 9 and d2 % 10 == 9", "i1 == 0 and j1 == 0"],
                             "parts": [(f"shape{sh}_c{c}_{k}_{int(n)}{int(m)}", f"shape == {sh} and c1 == {c} and c2 == {10 * k + 9} and n1 == {n} and m1 == {m}")
                                       for sh in range(5) for c in range(100) for k in range(10) for n in (False, True) for m in (False, True)]}},
         sample=(0, 3, 59, 39, 59, 0, 0, False, False),
         bounds="the same injectivity over ENUMERATED adversarial strings: two-letter words over {', \", backslash, space, =, a, 'None', newline, non-ASCII, empty}; all 5 shapes incl. (int,float) with quarter-step floats; solver-enumerated, run concretely",
         generalises="selectors only", outside="")
def name_injective_enum(shape, c1, c2, d1, d2, i1, j1, n1, m1):
    P = env.pick
    shape, c1, c2, d1, d2, i1, j1 = P(shape, 0, 4), P(c1, 0, 99), P(c2, 0, 99), P(d1, 0, 99), P(d2, 0, 99), P(i1, -1, 2), P(j1, -1, 2)
    n1, m1 = bool(n1), bool(m1)
    with env.notrace():
        return _inj(shape, _word(c1), _word(c2), i1, i1, n1, _word(d1), _word(d2), j1, j1, m1)


COUNT = {"n": 0}


@h.paramclass
class GP:
    a = h.Param(dtype=int, desc="a")
    s = h.Param(dtype=str, desc="s", default="x")


@h.paramclass
class Nested:
    g = h.Param(dtype=GP, desc="nested", default=GP(a=1))
    p = h.Param(dtype=h.Prefixed, desc="prefixed", default=1 * h.prefix.m)
    i = h.Param(dtype=h.Instantiable, desc="module-valued", default_factory=h.primitives.Mos)


@h.paramclass
class Sc:
    v = h.Param(dtype=h.Scalar, desc="a Scalar: equal numbers can be written in many ways")


@h.generator
def SG(p: Sc) -> h.Module:
    m = h.Module()
    m.x = h.Port()
    return m


def _gens():
    @h.generator
    def G(p: GP) -> h.Module:
        COUNT["n"] += 1
        m = h.Module()
        m.x = h.Port(width=max(1, abs(p.a)))
        return m

    @h.generator
    def Outer(p: GP) -> h.Module:
        m = h.Module()
        m.i = G(a=p.a, s=p.s)()
        m.j = G(GP(a=p.a, s=p.s))()
        return m

    @h.generator
    def N(p: Nested) -> h.Module:
        m = h.Module()
        m.i = G(p.g)()
        return m

    return G, Outer, N


@harness("C09", args="a1: int, a2: int, form: int, sx: bool", pre=["-3 <= a1 <= 3", "-3 <= a2 <= 3", "0 <= form <= 3"],
         tiers={"quick": {"timeout": 150, "parts": parts_over("form", range(4))}, "thorough": {"timeout": 600, "parts": parts_over("form", range(4))}},
         sample=(1, 1, 2, False),
         bounds="a generator called twice: by keywords / by param-class instance / from inside another generator / through a nested param class with Prefixed and Module-valued fields; parameter ints in [-3,3], two strings",
         generalises="parameter ints (realised at pydantic: bounded-exhaustive); call-form selectors", outside="")
def memo(a1, a2, form, sx):
    a1, a2, form = env.pick(a1, -3, 3), env.pick(a2, -3, 3), env.pick(form, 0, 3)
    sx = bool(sx)
    with env.notrace():
        return _memo(a1, a2, form, sx)


def _memo(a1, a2, form, sx):
    env.reset_all()
    COUNT["n"] = 0
    G, Outer, N = _gens()
    s1, s2 = "x", ("x" if not sx else "x ")
    if form == 0:
        m1, m2 = G(a=a1, s=s1), G(GP(a=a2, s=s2))
    elif form == 1:
        m1, m2 = G(GP(a=a1, s=s1)), G(a=a2, s=s2)
    elif form == 2:
        o1, o2 = Outer(a=a1, s=s1), Outer(GP(a=a2, s=s2))
        if o1.i.of is not o1.j.of or o2.i.of is not o2.j.of:
            return False
        m1, m2 = o1.i.of, o2.i.of
        if (o1 is o2) != ((a1, s1) == (a2, s2)):
            return False
    else:
        n1 = N(g=GP(a=a1, s=s1))
        n2 = N(Nested(g=GP(a=a2, s=s2), p=1 * h.prefix.m if not sx else 1000 * h.prefix.µ))
        m1, m2 = n1.i.of, n2.i.of
        if (n1.name == n2.name) != (n1 is n2):
            return False
        # 1*m and 1000*u are equal parameter values: equal parameters => the identical module
        if (a1, s1) == (a2, s2) and n1 is not n2:
            return False
        sc1, sc2 = Sc(v=1000), Sc(v=1 * h.prefix.K if sx else "1e3")
        if sc1 == sc2 and SG(sc1) is not SG(sc2):
            return False
    env.reached()
    equal = (a1, s1) == (a2, s2)
    if equal:
        return m1 is m2 and COUNT["n"] == 1 and m1.name == m2.name
    return m1 is not m2 and m1.name != m2.name and COUNT["n"] == 2


def _names_after(order):
    """exported names of the same three designs after a given call history"""
    env.reset_all()
    from hdl21.generators import Series, MosStack
    R = h.primitives.R(r=1)

    @h.generator
    def Hand(p: GP) -> h.Module:  # hands on another generator's module
        return Series(unit=R, nser=max(1, abs(p.a)) + 1, conns=["p", "n"])

    calls = {
        0: lambda: Series(unit=R, nser=2, conns=["p", "n"]),
        1: lambda: MosStack(nser=2),
        2: lambda: Hand(a=1),
        3: lambda: Hand(a=1, s="y"),
        4: lambda: MosStack(nser=3),
    }
    res = {}
    for k in order:
        res[k] = calls[k]()
    names = {k: m.name for k, m in res.items()}
    ids = {k: id(m) for k, m in res.items()}
    pkgnames = {}
    for k, m in res.items():
        env._reset_all_passes_only() if hasattr(env, "_reset_all_passes_only") else None
        pkgnames[k] = h.to_proto(m).modules[-1].name
    return names, pkgnames, {k: sorted(j for j in ids if ids[j] == ids[k]) for k in ids}


import itertools
ORDERS = list(itertools.permutations(range(5), 5))


@harness("C09", args="oi: int", pre=["0 <= oi < 120"],
         tiers={"quick": {"timeout": 170, "parts": [("lo", "oi < 40"), ("mid", "40 <= oi < 80"), ("hi", "oi >= 80")]}},
         sample=(77,),
         bounds="all 120 call orders of Series / MosStack (x2) / a user generator handing on Series' module (x2): module names and exported names must equal those of the canonical order; one module never appears under two names",
         generalises="call-order selector (exhaustive)", outside="longer histories")
def rename_history(oi):
    oi = env.pick(oi, 0, 119)
    with env.notrace():
        base = _names_after(ORDERS[0])
        got = _names_after(ORDERS[oi])
        env.COUNTS["reached"] += 1
        return base == got


# ---- the hashed naming path (any non-scalar field): equal names iff equal parameters ------------------------
OPT_I = [None, 0, 1, -1]
OPT_F = [None, 0.0, 1.0, 0.5]
OPT_S = [None, "", "0", "None", "x"]
OPT_B = [None, False, True]
_HASHED = {}


def _hashed_types():
    if not _HASHED:
        @h.paramclass
        class Bias:
            vref = h.Param(dtype=Optional[float], desc="vref", default=None)
            en = h.Param(dtype=Optional[bool], desc="en", default=None)

        @h.paramclass
        class HP:
            i = h.Param(dtype=Optional[int], desc="i", default=None)
            f = h.Param(dtype=Optional[float], desc="f", default=None)
            s = h.Param(dtype=Optional[str], desc="s", default=None)
            b = h.Param(dtype=Optional[bool], desc="b", default=None)
            bias = h.Param(dtype=Bias, desc="nested", default=Bias())
        _HASHED.update(Bias=Bias, HP=HP)
    return _HASHED["Bias"], _HASHED["HP"]


def _hashed(ia, fa, sa, ba, ib, fb, sb, bb, nest):
    env._reset_all()
    Bias, HP = _hashed_types()
    E = h.ExternalModule(name="E", port_list=[], paramtype=HP)

    def mk(i, f, s, b):
        if nest:  # the optional values sit in the nested parameter class
            return HP(s=OPT_S[s], i=OPT_I[i], bias=Bias(vref=OPT_F[f], en=OPT_B[b]))
        return HP(i=OPT_I[i], f=OPT_F[f], s=OPT_S[s], b=OPT_B[b])

    pa, pb = mk(ia, fa, sa, ba), mk(ib, fb, sb, bb)
    na, nb = E(pa).name, E(pb).name
    env.COUNTS["reached"] += 1
    same = (ia, fa, sa, ba) == (ib, fb, sb, bb)
    return (na == nb) == same


@harness("C09", args="ia: int, fa: int, sa: int, ba: int, ib: int, fb: int, sb: int, bb: int, nest: bool",
         pre=["0 <= ia <= 3", "0 <= ib <= 3", "0 <= fa <= 3", "0 <= fb <= 3", "0 <= sa <= 4", "0 <= sb <= 4", "0 <= ba <= 2", "0 <= bb <= 2"],
         tiers={"quick": {"timeout": 150, "parts": [("num", "sa == sb and ba == bb and sa == 0 and ba == 0"), ("txt", "ia == ib and fa == fb and ia == 0 and fa == 0")]},
                "thorough": {"timeout": 600, "parts": parts_product(parts_over("ia", range(4)), parts_over("sa", range(5)))}},
         sample=(0, 0, 0, 0, 1, 0, 0, 0, True),
         bounds="the hashed naming path (parameter class with bool / nested fields): optional int / float / str / bool fields over the confusable values None, 0, 0.0, '', '0', 'None', False ... directly or inside a nested parameter class; two calls get one name iff all fields are equal (quick: the two numeric fields vary, or the text and bool fields; thorough: all)",
         generalises="value selectors (solver-enumerated)", outside="md5 collisions")
def name_injective_hashed(ia, fa, sa, ba, ib, fb, sb, bb, nest):
    P = env.pick
    a = (P(ia, 0, 3), P(fa, 0, 3), P(sa, 0, 4), P(ba, 0, 2), P(ib, 0, 3), P(fb, 0, 3), P(sb, 0, 4), P(bb, 0, 2))
    nest = bool(nest)
    with env.notrace():
        return _hashed(*a, nest)


# ---- numeric values in readable names: unequal numbers never share a name ---------------------------------------
FL = [0.1 + 0.2, 0.3, 1000.0005, 1000.0004, 1234567.0, 1234568.0, 1e-9, 1.0000001e-9, 1.0, 1.0000000000000002, 2.5e-11, 1e22, 1e22 + 2 ** 21, -0.3, 0.0]
_FLT = {}


def _floats(fa, fb, ia, ib):
    env._reset_all()
    if not _FLT:
        @h.paramclass
        class FP:
            r = h.Param(dtype=float, desc="r")
            n = h.Param(dtype=int, desc="n")
        _FLT["FP"] = FP
    FP = _FLT["FP"]
    E = h.ExternalModule(name="E", port_list=[], paramtype=FP)
    na, nb = E(FP(r=FL[fa], n=ia)).name, E(FP(r=FL[fb], n=ib)).name
    env.COUNTS["reached"] += 1
    return (na == nb) == (FL[fa] == FL[fb] and ia == ib)


@harness("C09", args="fa: int, fb: int, ia: int, ib: int", pre=[f"0 <= fa < {len(FL)}", f"0 <= fb < {len(FL)}", "0 <= ia <= 1", "0 <= ib <= 1"],
         tiers={"quick": {"timeout": 120}}, sample=(0, 1, 1, 1),
         bounds="readable names of an all-scalar class (float, int): floats that agree in their first 6 / 15 / 16 significant digits, neighbouring doubles, large and tiny magnitudes, negative and zero; one name iff equal values",
         generalises="value selectors (solver-enumerated)", outside="")
def name_injective_floats(fa, fb, ia, ib):
    P = env.pick
    a = (P(fa, 0, len(FL) - 1), P(fb, 0, len(FL) - 1), P(ia, 0, 1), P(ib, 0, 1))
    with env.notrace():
        return _floats(*a)


# ---- Module-valued parameters: two modules with one simple name (defined in two files) are different parameters ---
def _module_params(k1, k2):
    env._reset_all()
    from harness.c07_history import _libs
    la, lb = _libs()
    units = [la.make(["p", "n"])[0], lb.make(["x", "y"])[0]]
    units.append(units[0])  # (index 2: the first object again)
    if "MP" not in _FLT:
        @h.paramclass
        class MP:
            unit = h.Param(dtype=h.Instantiable, desc="unit cell")
            n = h.Param(dtype=int, desc="n", default=2)

        @h.generator
        def UnitUser(p: MP) -> h.Module:
            m = h.Module()
            m.x = h.Port(width=p.n)
            return m
        _FLT["MP"], _FLT["UnitUser"] = MP, UnitUser
    if "FG" not in _FLT:
        @h.paramclass
        class Inner:
            n = h.Param(dtype=int, desc="n", default=1)

        @h.paramclass
        class FP2:
            a = h.Param(dtype=int, desc="a", default=1)
            inner = h.Param(dtype=Inner, desc="inner", default_factory=Inner)

        @h.generator
        def FacGen(p: FP2) -> h.Module:
            m = h.Module()
            m.x = h.Port(width=p.inner.n + p.a)
            return m
        _FLT["FG"], _FLT["Inner"], _FLT["FP2"] = FacGen, Inner, FP2
    FG, Inner, FP2 = _FLT["FG"], _FLT["Inner"], _FLT["FP2"]
    # fields declared with default_factory take part in equality: n = k1+1 vs n = k2+1; defaults written out or not
    f1, f2 = FG(a=1, inner=Inner(n=k1 + 1)), FG(FP2(inner=Inner(n=k2 + 1)))
    if (f1 is f2) != (k1 == k2) or (f1.name == f2.name) != (k1 == k2) or f1.x.width != k1 + 2 or f2.x.width != k2 + 2:
        return False
    if FG() is not FG(FP2(a=1, inner=Inner(n=1))):
        return False
    G = _FLT["UnitUser"]
    a, b = G(unit=units[k1]), G(unit=units[k2])
    env.COUNTS["reached"] += 1
    same = units[k1] is units[k2]
    if (a is b) != same or (a.name == b.name) != same:
        return False
    if not same:  # both can live in one package
        top = h.Module(name="Top")
        top.s = h.Signal(width=2)
        top.a, top.b = a(x=top.s), b(x=top.s)
        try:
            h.to_proto(top)
        except Exception:
            return False
    return True


@harness("C09", args="k1: int, k2: int", pre=["0 <= k1 <= 2", "0 <= k2 <= 2"], tiers={"quick": {"timeout": 120}}, sample=(0, 1),
         bounds="a generator with a Module-valued parameter called with two distinct modules of one simple name (defined in two python files: qualified names differ) and with one module twice: one generated module and one name iff the same module object; distinct results export together",
         generalises="selectors (solver-enumerated)", outside="")
def module_params(k1, k2):
    k1, k2 = env.pick(k1, 0, 2), env.pick(k2, 0, 2)
    with env.notrace():
        return _module_params(k1, k2)
