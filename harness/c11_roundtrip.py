"""C11: to_proto(from_proto(P)) == P.  Besides riding on every C01/C10/C19 design path
(vlib.designcheck.roundtrip), this module sweeps the primitive / external-module parameter space,
slice+concat index conventions and external-module headers (port order, direction, width, spice type)."""
from decimal import Decimal
from vlib import env
from vlib.spec import harness, parts_over, parts_product
import hdl21 as h
from hdl21.prefix import Prefix, Prefixed
from vlib.designcheck import roundtrip

PL = [-24, -21, -18, -15, -12, -9, -6, -3, -2, -1, 0, 1, 2, 3, 6, 9, 12, 15, 18, 21, 24]


def _pref(coef, exp, pv):
    with env.notrace():  # CrossHair swaps in its own Decimal while tracing; pydantic needs the real one
        bypow = {p.value: p for p in Prefix}
        return Prefixed(number=Decimal(coef).scaleb(exp), prefix=bypow[pv])


def _rt(top, domain=None):
    pkg = h.to_proto(top, domain=domain)
    with env.notrace():
        env.COUNTS["reached"] += 1
        ok, why = roundtrip(pkg)
        WHY["why"] = why
        return ok


WHY = {}


@harness("C11", args="kind: int, coef: int, exp: int, pv: int", pre=["0 <= kind <= 9"],
         tiers={"quick": {"timeout": 170, "pre": ["-5 <= coef <= 20", "-1 <= exp <= 1", "pv in " + repr(PL)],
                          "parts": parts_over("kind", range(10))},
                "thorough": {"timeout": 1500, "pre": ["-30 <= coef <= 99", "-3 <= exp <= 3", "pv in " + repr(PL)],
                             "parts": parts_product(parts_over("kind", range(10)), [("neg", "coef < 0"), ("lo", "0 <= coef < 50"), ("hi", "coef >= 50")])}},
         sample=(0, 15, -1, -9),
         bounds="parameter kinds: ideal R/C/L/Vdc/Isrc/Vsin (Prefixed), the four controlled sources, pulse source (renamed parameters, unset fields, literals), physical Mos (ints, optional, enums), external module with dict parameters (int, float, str, Literal, Prefixed, Decimal-string); mantissa coef*10^exp with coef in [-5,20], exp in [-1,1] (quick) / [-30,99] x [-3,3] (thorough); all 21 prefixes; values are realised at the pydantic boundary, so this is bounded-exhaustive enumeration by the solver, not generalisation",
         generalises="nothing beyond the box (values realise at pydantic/protobuf)", outside="mantissas with more than 2 significant digits")
def params_roundtrip(kind, coef, exp, pv):
    env.reset_all()
    kind, coef, exp, pv = env.pick(kind, 0, 9), env.pick(coef, -30, 99), env.pick(exp, -3, 3), env.pick_from(pv, PL)
    with env.notrace():  # every input is concrete from here on (values realise at the pydantic boundary anyway)
        return _params_concrete(kind, coef, exp, pv)


def _params_concrete(kind, coef, exp, pv):
    top = h.Module(name="Top")
    a, b = top.add(h.Port(name="a")), top.add(h.Port(name="b"))
    v = _pref(coef, exp, pv)
    P = h.primitives
    if kind == 0:
        top.u = P.R(r=v)(p=a, n=b)
    elif kind == 1:
        top.u = P.C(c=v)(p=a, n=b)
    elif kind == 2:
        top.u = P.Vdc(dc=v, ac=v)(p=a, n=b)
    elif kind == 3:
        # pulse source: renamed parameters; unset fields (coef odd) are not exported and must import back as unset
        # ... and literals (numeric-looking or not) on the renamed timing fields must come back as the same literals
        lit = h.Literal("%de-9" % coef) if exp == 0 else h.Literal("%d" % coef) if exp == 1 else h.Literal("t_r/%d" % (abs(coef) + 1))
        top.u = P.Vpulse(v1=v, v2=2 * v, delay=v if coef % 2 == 0 else None, rise=lit if coef % 2 else v, fall=v if coef % 3 else None,
                         width=lit if coef % 3 == 0 else v, period=lit if coef % 5 == 0 else v)(p=a, n=b)
        top.u2 = P.R(r=h.Literal("%d" % coef) if exp == 0 else h.Literal("r*%d" % coef))(p=a, n=b)  # numeric-looking literal on a Scalar field
    elif kind == 4:
        top.u = P.Mos(w=v, l=v, npar=max(1, abs(coef)), tp=P.MosType.PMOS if coef % 2 else P.MosType.NMOS,
                      vth=P.MosVth.LOW if exp % 2 else P.MosVth.STD)(d=a, g=b, s=a, b=b)
    elif kind == 5:
        E = h.ExternalModule(name="E", port_list=[h.Input(name="x"), h.Output(name="y")], paramtype=dict)
        top.u = E(dict(i=coef, f=coef / 4, s="s%d" % coef, p=v, lit=h.Literal("a+%d" % exp)))(x=a, y=b)
    elif kind == 6:
        top.u = P.L(l=v)(p=a, n=b)
        top.literals.append(h.Literal("first %d" % coef))
        top.literals.append(h.Literal("second"))
    elif kind == 7:
        top.u = P.Isrc(dc=v)(p=a, n=b)
    elif kind == 8:  # the four controlled sources share ports and parameter class: only the primitive's name tells them apart
        src = (P.Vcvs, P.Vccs, P.Ccvs, P.Cccs)[coef % 4]
        oth = (P.Vcvs, P.Vccs, P.Ccvs, P.Cccs)[(coef + 1 + exp % 3) % 4]
        top.u = src(gain=v)(p=a, n=b, cp=a, cn=b)
        top.u2 = oth(gain=2 * v)(p=b, n=a, cp=a, cn=b)
    else:
        top.u = P.Vsin(voff=v, vamp=2 * v, freq=3 * v)(p=a, n=b)
    return _rt(top)


@harness("C11", args="w: int, bot: int, top: int, shape: int", pre=["1 <= w", "0 <= bot < top <= w", "0 <= shape <= 6"],
         tiers={"quick": {"timeout": 150, "pre": ["w <= 4"], "parts": parts_over("shape", range(7))},
                "thorough": {"timeout": 600, "pre": ["w <= 7"], "parts": parts_product(parts_over("shape", range(7)), parts_over("w", range(1, 8)))}},
         sample=(4, 1, 3, 2),
         bounds="bus width w<=4 (quick) / <=7; every slice [bot:top); shapes: slice, concat(slice, signal), concat(signal, slice, bit), nested concat, reversed / strided slices among plain parts, nested concat with reversed-strided slices, one-part concatenations (of a slice, and of a signal on a second port)",
         generalises="width and slice bounds (inclusive/exclusive top conversion, part order)", outside="")
def slices_roundtrip(w, bot, top, shape):
    env.reset_all()
    m = h.Module(name="Top")
    x = m.add(h.Port(name="x", width=w))
    y = m.add(h.Port(name="y", width=1))
    n = top - bot
    if shape == 0:
        e, wd = x[bot:top], n
    elif shape == 1:
        e, wd = h.Concat(x[bot:top], y), n + 1
    elif shape == 2:
        e, wd = h.Concat(y, x[bot:top], x[bot]), n + 2
    elif shape == 3:
        e, wd = h.Concat(h.Concat(x[bot:top], y), x), n + 1 + w
    elif shape == 4:  # reversed / strided slices among plain parts (resolve to their bits: the result must stay one flat concatenation)
        e = h.Concat(x[bot:top][::-1], y, x[::2])
        wd = e.width
    elif shape == 5:
        e = h.Concat(y, h.Concat(x[::-2], x[bot:top]), x[top - 1::-1])
        wd = e.width
    else:  # one-part concatenations: of a slice, and (second port) of a whole signal
        e, wd = h.Concat(x[bot:top]), n
    E = h.ExternalModule(name="E", port_list=[h.Port(name="p", width=wd), h.Port(name="q", width=1)], paramtype=dict)
    m.u = E({})(p=e, q=h.Concat(y) if shape == 6 else y)
    return _rt(m)


@harness("C11", args="st: int, d0: int, d1: int, w0: int, w1: int, swap: bool", pre=["0 <= st <= 13", "0 <= d0 <= 3", "0 <= d1 <= 3", "1 <= w0 <= 2", "1 <= w1 <= 2"],
         tiers={"quick": {"timeout": 150, "parts": [("lo", "st <= 6"), ("hi", "st >= 7")]},
                "thorough": {"timeout": 900, "parts": parts_over("st", range(14))}},
         sample=(4, 1, 2, 2, 1, True),
         bounds="external module headers: all 14 spice types x port directions x widths 1..2 x port order; next to a domain-less external module; package exported with or without a domain of its own",
         generalises="selectors only (finite product)", outside="")
def extmodule_roundtrip(st, d0, d1, w0, w1, swap):
    env.reset_all()
    from hdl21.external_module import SpiceType
    st, d0, d1, w0, w1, swap = env.pick(st, 0, 13), env.pick(d0, 0, 3), env.pick(d1, 0, 3), env.pick(w0, 1, 2), env.pick(w1, 1, 2), bool(swap)
    with env.notrace():
        return _ext_concrete(st, d0, d1, w0, w1, swap)


def _ext_concrete(st, d0, d1, w0, w1, swap):
    from hdl21.external_module import SpiceType
    dirs = [h.PortDir.INPUT, h.PortDir.OUTPUT, h.PortDir.INOUT, h.PortDir.NONE]
    ports = [h.Signal(name="p0", width=w0, vis=h.signal.Visibility.PORT, direction=dirs[d0]),
             h.Signal(name="p1", width=w1, vis=h.signal.Visibility.PORT, direction=dirs[d1])]
    if swap:
        ports.reverse()
    E = h.ExternalModule(name="E", domain="dom", desc="an external module", port_list=ports, paramtype=dict,
                         spicetype=list(SpiceType)[st])
    m = h.Module(name="Top")
    a = m.add(h.Signal(name="a", width=w0))
    b = m.add(h.Signal(name="b", width=w1))
    m.u = E({})(p0=a, p1=b)
    # a second external module WITHOUT a domain of its own; and, when `swap`, a package exported under a domain
    F = h.ExternalModule(name="F", port_list=[h.Port(name="q", width=w0)], paramtype=dict)
    m.v = F({})(q=a)
    if not _rt(m, domain="mylib" if swap else None):
        return False
    # ... and a later import, in the same process, of ANOTHER package declaring `dom.E` differently (ports reversed, other
    # widths, directions and spice type): nothing of the first import may leak into it
    ports2 = [h.Signal(name="p1", width=w0, vis=h.signal.Visibility.PORT, direction=dirs[(d0 + 1) % 4]),
              h.Signal(name="p0", width=w1, vis=h.signal.Visibility.PORT, direction=dirs[(d1 + 2) % 4])]
    if not swap:
        ports2.reverse()
    E2 = h.ExternalModule(name="E", domain="dom", desc="the same name, another device", port_list=ports2, paramtype=dict,
                          spicetype=list(SpiceType)[(st + 3) % 14])
    m2 = h.Module(name="Top")
    a2 = m2.add(h.Signal(name="a", width=w0))
    b2 = m2.add(h.Signal(name="b", width=w1))
    m2.u = E2({})(p1=a2, p0=b2)
    return _rt(m2)
