"""C14: the real source of hdl21/prefix.py executed over the Decimal model (engine E2), with the
mantissas (c, e) symbolic and the prefixes concrete per partition; replay through the real
hdl21.prefix with real decimal.Decimal (`real_twin`)."""
import decimal
from vlib import env
from vlib.spec import harness, Harness, REGISTRY
from vlib import mdec, modelload

PVALS = [-24, -21, -18, -15, -12, -9, -6, -3, -2, -1, 0, 1, 2, 3, 6, 9, 12, 15, 18, 21, 24]


class ModelBackend:
    def __init__(self):
        self.M = modelload.load_prefix()
        self.Prefix, self.Prefixed = self.M["Prefix"], self.M["Prefixed"]
        self.bypow = {p.value: p for p in self.Prefix}
        self.Unsupported = mdec.ModelUnsupported
        self.InvalidOperation = mdec.InvalidOperation

    def dec(self, c, e):
        return mdec.MDec(c, e)

    def mk(self, c, e, pv):
        return self.Prefixed.new(mdec.MDec(c, e), self.bypow[pv])

    def ce(self, d):
        return d.c, d.e

    def begin(self, fr):
        mdec.reset_context()
        mdec.set_frac(fr)


class RealBackend:
    def __init__(self):
        import hdl21.prefix as P
        self.Prefix, self.Prefixed = P.Prefix, P.Prefixed
        self.P = P
        self.bypow = {p.value: p for p in self.Prefix}
        self.Unsupported = ()
        self.InvalidOperation = decimal.InvalidOperation

    def dec(self, c, e):
        return decimal.Decimal((1 if c < 0 else 0, tuple(int(ch) for ch in str(abs(c))), e))

    def mk(self, c, e, pv):
        return self.Prefixed(number=self.dec(c, e), prefix=self.bypow[pv])

    def ce(self, d):
        t = d.as_tuple()
        c = int("".join(map(str, t.digits)) or "0")
        return (-c if t.sign else c), t.exponent

    def begin(self, fr):
        pass


_B = {}


def backend(real):
    k = "real" if real else "model"
    if k not in _B:
        _B[k] = RealBackend() if real else ModelBackend()
    return _B[k]


if env.SYM:  # the model must be loaded outside CrossHair's tracing
    backend(False)


def exact(B, p):
    """exact value of a Prefixed as (c, e): c * 10**e"""
    c, e = B.ce(p.number)
    return c, e + p.prefix.value


def eqv(a, b):
    m = a[1] if a[1] < b[1] else b[1]
    return a[0] * 10 ** (a[1] - m) == b[0] * 10 ** (b[1] - m)


def cmpv(a, b):
    m = a[1] if a[1] < b[1] else b[1]
    x, y = a[0] * 10 ** (a[1] - m), b[0] * 10 ** (b[1] - m)
    return (x > y) - (x < y)


def fits28(c):
    return -10 ** 28 < c < 10 ** 28


# ---------------------------------------------------------------------------------------------
def _unary(B, op, c, e, p1, p2, fr):
    B.begin(fr)
    a = B.mk(c, e, p1)
    want = (c, e + p1)
    try:
        if op == 0:
            r = -a; want = (-c, e + p1)
        elif op == 1:
            r = abs(a); want = (abs(c), e + p1)
        elif op == 2:
            r = a.scale(B.bypow[p2])
        elif op == 3:
            r = a.scale()
        elif op == 4:
            r = B.dec(c, e) * B.bypow[p1]  # Prefix.__rmul__(Decimal)
        elif op == 5:
            r = B.P.to_prefixed(B.dec(c, e)) if hasattr(B, "P") else B.M["to_prefixed"](B.dec(c, e)); want = (c, e)
        elif op == 6:  # int(): integer part (truncation toward zero)
            got = a.__int__()  # int(a): CPython's C-level int() rejects CrossHair's proxy ints
            env.reached()
            ex = e + p1
            w = c * 10 ** ex if ex >= 0 else (abs(c) // 10 ** (-ex)) * (1 if c >= 0 else -1)
            return got == w
        elif op == 7:  # hash consistency across prefixes: same value written with prefix p2
            d = p1 - p2  # a = c*10^(e+p1) ; b = c*10^(e+d) * 10^p2
            b = B.mk(c, e + d, p2)
            env.reached()
            return (a == b) and a.__hash__() == b.__hash__()
        elif op == 8:  # float(): nearest double of the exact value
            got = a.__float__()
            env.reached()
            if isinstance(got, mdec.FloatOf):  # model: float(Decimal) of an exact argument is correctly rounded
                return eqv((got.d.c, got.d.e), want)
            import fractions
            ex = e + p1
            q = fractions.Fraction(c) * (fractions.Fraction(10) ** ex)
            return got == float(q)  # Fraction -> float is correctly rounded
    except B.Unsupported:
        return True  # construct outside the Decimal model: no verdict on this path (counted as not reached)
    env.reached()
    return eqv(exact(B, r), want)


def _binary(B, op, c1, e1, c2, e2, p1, p2, fr):
    B.begin(fr)
    a, b = B.mk(c1, e1, p1), B.mk(c2, e2, p2)
    x, y = (c1, e1 + p1), (c2, e2 + p2)
    m = x[1] if x[1] < y[1] else y[1]
    X, Y = x[0] * 10 ** (x[1] - m), y[0] * 10 ** (y[1] - m)
    try:
        if op == 0:
            r = a + b; want = (X + Y, m)
        elif op == 1:
            r = a - b; want = (X - Y, m)
        else:
            r = a * b; want = (c1 * c2, x[1] + y[1])
    except B.Unsupported:
        return True
    env.reached()
    if not fits28(want[0]) or not fits28(X) or not fits28(Y):
        return True  # result or aligned operand needs more than 28 significant digits: outside the claim
    return eqv(exact(B, r), want)


def _compare(B, c1, e1, c2, e2, p1, p2, fr):
    B.begin(fr)
    a, b = B.mk(c1, e1, p1), B.mk(c2, e2, p2)
    x, y = (c1, e1 + p1), (c2, e2 + p2)
    # never raises:
    lt, le, eq, ne, gt, ge = a < b, a <= b, a == b, a != b, a > b, a >= b
    env.reached()
    if (lt + eq + gt) != 1:
        return False  # trichotomy
    if le != (lt or eq) or ge != (gt or eq) or ne != (not eq):
        return False
    s = cmpv(x, y)
    if s == 0:
        return eq and a.__hash__() == b.__hash__()
    # differ by more than 1e-20 (absolute, in the units of the smaller prefix) => agree with exact comparison
    m = x[1] if x[1] < y[1] else y[1]
    sp = p1 if p1 < p2 else p2
    diff = abs(x[0] * 10 ** (x[1] - m) - y[0] * 10 ** (y[1] - m))  # * 10^m
    # |x - y| > 1e-20 * 10^sp  <=>  diff * 10^(m - sp + 20) > 1
    k = m - sp + 20
    far = diff * 10 ** k > 1 if k >= 0 else diff > 10 ** (-k)
    if far:
        return (lt, gt) == (s < 0, s > 0)
    return True


# ---- harness registration -----------------------------------------------------------------------
def _twins(name, fn, nargs):
    def model(*a):
        return fn(backend(False), *a)

    def real(*a):
        return fn(backend(True), *a)

    model.__name__ = model.__qualname__ = name
    return model, real


_FR = "-60000 <= fr <= 60000"
_IN = "p2 in " + repr(PVALS)


def _t(v):
    return str(v).replace("-", "m")


unary_exact, _ur = _twins("unary_exact", _unary, 6)
harness("C14", args="op: int, c: int, e: int, p1: int, p2: int, fr: int",
        pre=["-10**25 < c < 10**25", "-6 <= e <= 6"],
        tiers={"quick": {"timeout": 120, "parts":
                         [(f"op{op}_{_t(p)}", f"op == {op} and p1 == {p} and p2 == 0 and fr == 0") for op in (0, 1, 4, 5, 6, 8) for p in (-9, 0, 3)]
                         + [(f"op2_{_t(p)}", f"op == 2 and p1 == {p} and fr == 0 and {_IN}") for p in (-24, -3, 0, 24)]
                         + [(f"op3_{_t(p)}", f"op == 3 and p1 == {p} and p2 == 0 and {_FR}") for p in (-24, -3, 0, 24)]
                         + [(f"op7_{_t(p)}", f"op == 7 and p1 == {p} and fr == 0 and -1 <= e <= 1 and -1000 < c < 1000 and p2 in (-24, 0, 1, 24)") for p in (-9, 0, 3)]},
               "thorough": {"timeout": 900, "parts":
                            [(f"op{op}_{_t(p)}", f"op == {op} and p1 == {p} and p2 == 0 and fr == 0") for op in (0, 1, 4, 5, 6, 8) for p in PVALS]
                            + [(f"op2_{_t(p)}", f"op == 2 and p1 == {p} and fr == 0 and {_IN}") for p in PVALS]
                            + [(f"op3_{_t(p)}", f"op == 3 and p1 == {p} and p2 == 0 and {_FR}") for p in PVALS]
                            + [(f"op7_{_t(p)}", f"op == 7 and p1 == {p} and fr == 0 and -2 <= e <= 2 and -10**5 < c < 10**5 and {_IN}") for p in PVALS]}},
        sample=(3, 1500, 0, -3, 0, 0), real_twin=_ur,
        bounds="ops neg/abs/scale(prefix)/scale()/Decimal*Prefix/to_prefixed/int: mantissa |c| < 10^25 (1..25 digits, both signs, zero), e in [-6,6]; hash/eq across prefixes (hash modelled as a value-equality key): |c| < 10^3 quick, 10^5 thorough; prefixes: a spread (quick) / all 21 (thorough), all 21 scale targets; log10 nondeterministic (any prefix chosen by closest())",
        generalises="mantissa coefficient and exponent as integers; target prefix (table lookup); log10 result",
        outside="mantissas beyond 25 digits; exponents beyond +-6; / ** sqrt on Prefixed")(unary_exact)

binary_exact, _br = _twins("binary_exact", _binary, 8)
harness("C14", args="op: int, c1: int, e1: int, c2: int, e2: int, p1: int, p2: int, fr: int",
        pre=[],
        tiers={"quick": {"timeout": 150, "pre": ["-10**6 < c1 < 10**6", "-10**6 < c2 < 10**6", "-1 <= e1 <= 1", "e2 == 0"],
                         "parts": [(f"op{op}_{_t(a)}_{_t(b)}", f"op == {op} and p1 == {a} and p2 == {b} and fr == 0")
                                   for op in range(3) for (a, b) in ((0, 0), (3, -6), (-9, 0), (-24, 24), (2, 1))] +
                                  # products whose prefix exponents add up to a non-prefix exponent (4, -4, 27, -45: residual rescaling)
                                  [(f"op2_{_t(a)}_{_t(b)}", f"op == 2 and p1 == {a} and p2 == {b} and fr == 0") for (a, b) in ((3, 1), (-2, -2), (24, 3), (-24, -21), (6, -1))]},
               "thorough": {"timeout": 600, "pre": ["-10**12 < c1 < 10**12", "-10**12 < c2 < 10**12", "-3 <= e1 <= 3", "-3 <= e2 <= 3", _FR],
                            "parts": [(f"op{op}_{_t(a)}_{_t(b)}_e{_t(k)}", f"op == {op} and p1 == {a} and p2 == {b} and e1 == {k}")
                                      for op in range(3) for a in PVALS[::3] for b in PVALS[1::4] for k in range(-3, 4)]}},
        sample=(0, 15, 0, 25, -1, 3, -6, 0), real_twin=_br,
        bounds="quick |c| < 10^6, e1 in [-1,1], e2 = 0, log10 pinned, 5 prefix pairs x 3 ops + 5 pairs with a non-prefix exponent sum for *; thorough |c| < 10^12, e in [-3,3], log10 nondeterministic, 7x5 prefix pairs x 3 ops; results needing > 28 digits excluded",
        generalises="both mantissas (coefficient, exponent) as integers", outside="results with more than 28 significant digits; other prefix pairs")(binary_exact)

# operands closer than the 1e-20 comparison tolerance without being identical: 21..23 decimal places
_NEAR = [(f"near_{_t(a)}_{_t(b)}_e{k}", f"p1 == {a} and p2 == {b} and fr == 0 and e1 == -{k} and e2 == 0 and c2 == {10 ** (a - b)} and {10 ** k} - 40 < c1 < {10 ** k} + 40")
         for (a, b) in ((0, 0), (3, 0), (24, 24), (-9, -12)) for k in (20, 21, 23)]
# ... and operands of 10^9 and more units of the smaller prefix that differ by a fraction of one unit (rounding them to the
# comparison precision takes more digits than the decimal context holds)
_BIGNEAR = [(f"big_{_t(a)}_{_t(b)}_e{k}", f"p1 == {a} and p2 == {b} and fr == 0 and e1 == 0 and 1 <= c1 <= 3 and e2 == -{k} and c1 * {10 ** (a - b + k)} - 40 < c2 < c1 * {10 ** (a - b + k)} + 40")
            for (a, b) in ((9, 0), (0, -9), (24, 3), (3, -9)) for k in (1, 3)]
compare_total, _cr = _twins("compare_total", _compare, 7)
harness("C14", args="c1: int, e1: int, c2: int, e2: int, p1: int, p2: int, fr: int",
        pre=[],
        tiers={"quick": {"timeout": 150, "pre": [],
                         "parts": [(f"p{_t(a)}", f"p1 == {a} and fr == 0 and e1 == 0 and e2 == 0 and p2 in (-24, -9, 0, 3, 24) and -100 < c1 < 100 and -100 < c2 < 100") for a in PVALS] + _NEAR + _BIGNEAR},
               "thorough": {"timeout": 600, "pre": [],
                            "parts": [(f"p{_t(a)}_{_t(b)}", f"p1 == {a} and p2 == {b} and fr == 0 and -10**4 < c1 < 10**4 and -10**4 < c2 < 10**4 and -2 <= e1 <= 2 and -2 <= e2 <= 2") for a in PVALS for b in PVALS] + _NEAR + _BIGNEAR}},
        sample=(1, 0, 9, 0, 0, -9, 0), real_twin=_cr,
        bounds="quick: |c| < 100, e = 0, 21 x 5 prefix pairs; thorough: |c| < 10^4, e in [-2,2], all 441 ordered prefix pairs; both: near-equal operands (value 1 +- k*10^-20 / 10^-21 / 10^-23 of the smaller prefix, |k| < 40) on 4 prefix pairs, and operands of 1..3 * 10^9 .. 10^21 units of the smaller prefix differing by k/10 or k/1000 of one unit (|k| < 40) on 4 prefix pairs 9..21 decades apart",
        generalises="both mantissas as integers", outside="larger mantissas")(compare_total)


@harness("C14", args="seed: int", gate=True, sample=(1,),
         bounds="differential validation of the Decimal model: 1500 random operand tuples x 8 unary + 3 binary ops + comparisons through prefix.py-under-model and through the real hdl21.prefix (outcome and exception type must agree); plus raw MDec vs decimal.Decimal arithmetic on 1-30 digit operands")
def model_matches_real(seed):
    import random
    r = random.Random(seed)
    M, Rl = backend(False), backend(True)

    def out(f, *a):
        try:
            return ("ok", f(*a))
        except Exception as ex:
            return ("exc", type(ex).__name__)

    for it in range(1500):
        c1 = r.randrange(-10 ** r.choice([1, 3, 6, 12, 25, 28]), 10 ** r.choice([1, 3, 6, 12, 25, 28]))
        c2 = r.randrange(-10 ** r.choice([1, 6, 12]), 10 ** r.choice([1, 6, 12]))
        e1, e2 = r.randrange(-6, 7), r.randrange(-3, 4)
        p1, p2, fr = r.choice(PVALS), r.choice(PVALS), r.randrange(-60000, 60000)
        for op in range(9):
            if out(_unary, M, op, c1, e1, p1, p2, fr) != out(_unary, Rl, op, c1, e1, p1, p2, fr):
                return False
        for op in range(3):
            if out(_binary, M, op, c1 % 10 ** 12, e1 % 4, c2, e2, p1, p2, fr) != out(_binary, Rl, op, c1 % 10 ** 12, e1 % 4, c2, e2, p1, p2, fr):
                return False
        if out(_compare, M, c1, e1, c2, e2, p1, p2, 0) != out(_compare, Rl, c1, e1, c2, e2, p1, p2, 0):
            return False
        # raw arithmetic of the model against the real library (rounding to 28 digits included)
        a, b = mdec.MDec(c1, e1), mdec.MDec(c2, e2)
        ra, rb = Rl.dec(c1, e1), Rl.dec(c2, e2)
        mdec.reset_context()
        for f in (lambda x, y: x + y, lambda x, y: x - y, lambda x, y: x * y, lambda x, y: -x, lambda x, y: abs(y),
                  lambda x, y: round(x, 20), lambda x, y: x < y, lambda x, y: x == y, lambda x, y: int(x)):
            mo, ro = out(f, a, b), out(f, ra, rb)
            if mo[0] != ro[0]:
                return False
            if mo[0] == "ok":
                mv, rv = mo[1], ro[1]
                if isinstance(mv, mdec.MDec):
                    if Rl.dec(mv.c, mv.e) != rv or (mv.c != 0 and Rl.ce(rv) != (mv.c, mv.e)):
                        return False
                elif mv != rv:
                    return False
    env.reached()
    return True


# ---- E3: QF_FP lemma for float(Prefixed) when it is computed by float multiplication ----------------
def _float_shape():
    import ast, inspect, textwrap
    src = open(modelload.PREFIX_PY).read()
    tree = ast.parse(src)
    for cls in [n for n in tree.body if isinstance(n, ast.ClassDef) and n.name == "Prefixed"]:
        for fn in cls.body:
            if isinstance(fn, ast.FunctionDef) and fn.name == "__float__":
                ret = [n for n in ast.walk(fn) if isinstance(n, ast.Return)]
                if len(ret) != 1:
                    return "unknown", ast.unparse(fn)
                v = ret[0].value
                txt = ast.unparse(v)
                if isinstance(v, ast.BinOp) and isinstance(v.op, ast.Mult) and "float(self.number)" in txt and "10 **" in txt.replace("10**", "10 **"):
                    return "float_times_pow10", txt
                if isinstance(v, ast.Call) and getattr(v.func, "id", "") == "float":
                    return "float_of_decimal", txt
                return "unknown", txt
    return "missing", ""


def float_real(x, p):
    """replay twin: the real library on mantissa x (integer) with prefix 10^p"""
    import fractions
    B = backend(True)
    got = float(B.mk(x, 0, p))
    env.reached()
    return got == float(fractions.Fraction(x) * fractions.Fraction(10) ** p)


def float_nearest(tier):
    import time
    shape, txt = _float_shape()
    out = []
    if shape == "float_of_decimal":
        return [{"name": "float_shape", "verdict": "not-encoded", "shape": txt,
                 "note": "float(<Decimal expr>): correct rounding of float(Decimal) is C code (trusted CPython contract); exactness of the argument is decided by unary_exact op 8"}]
    if shape != "float_times_pow10":
        return [{"name": "float_shape", "verdict": "unknown", "shape": txt, "note": "unrecognised shape of Prefixed.__float__"}]
    import z3
    for p in [v for v in PVALS if abs(v) <= 22]:
        t0 = time.time()
        D = z3.Float64()
        x = z3.FP("x", D)
        rm = z3.RNE()
        s = z3.Solver()
        s.set("timeout", 60000 if tier == "quick" else 600000)
        s.add(z3.Not(z3.fpIsNaN(x)), z3.Not(z3.fpIsInf(x)), x == z3.fpRoundToIntegral(rm, x),
              z3.fpLEQ(z3.fpAbs(x), z3.FPVal(2.0 ** 53, D)))
        fl = z3.FPVal(float(10 ** p), D)  # what `10**self.prefix.value` evaluates to in Python
        got = z3.fpMul(rm, x, fl)
        if p >= 0:
            want = z3.fpMul(rm, x, z3.FPVal(float(10 ** p), D))  # 10^p exact in binary64 for p <= 22
        else:
            want = z3.fpDiv(rm, x, z3.FPVal(float(10 ** (-p)), D))  # correctly rounded quotient
        s.add(z3.Not(z3.fpEQ(got, want)))
        r = s.check()
        q = {"name": f"float_p{p}", "verdict": str(r), "time_s": round(time.time() - t0, 2), "queries": 1}
        if str(r) == "sat":
            import fractions
            xv = s.model()[x]
            q["cex"] = [int(fractions.Fraction(str(z3.simplify(z3.fpToReal(xv)).as_fraction()))), p]
        out.append(q)
    return out


float_nearest.__harness__ = Harness(prop="C14", name="float_nearest", body=float_nearest, module=__name__, args="x: int, p: int",
                                    pre=[], tiers={"quick": {"timeout": 120}, "thorough": {"timeout": 900}}, kind="smt",
                                    real_twin=float_real, sample=None,
                                    bounds="integer mantissas |x| <= 2^53, prefixes with |p| <= 22 (10^|p| exact in binary64)",
                                    generalises="the mantissa as a binary64 value (QF_FP)", outside="|p| = 24; non-integer mantissas")
REGISTRY.setdefault("C14", []).append(float_nearest.__harness__)


@harness("C14", args="seed: int", concrete=True, sample=(0,),
         bounds="concrete seed (no symbolic input, no model): the same post-conditions evaluated on the REAL hdl21.prefix over a fixed grid (9 unary and 3 binary operations and the comparisons x mantissas {0, +-1, +-15, +-999, 10^6+1, -(10^9+7)} x exponents {-2, 0, 1} x 6 prefix pairs; comparisons of operands of 10^9 and more units that differ by a fraction of one unit); independent of the Decimal model, so it still decides something when the model gate fails")
def real_grid(seed):
    cs = (0, 1, -1, 15, -15, 999, -999, 10 ** 6 + 1, -(10 ** 9 + 7))
    es = (-2, 0, 1)
    pairs = ((0, 0), (3, -6), (-9, 0), (-3, -3), (2, 1), (24, -24))
    bad = []
    for c in cs:
        for e in es:
            for (p1, p2) in pairs:
                for op in range(9):
                    if op == 7 and abs(p1 - p2) > 12:
                        continue
                    try:
                        ok = _ur(op, c, e, p1, p2, 0)
                    except Exception as ex:
                        ok = False
                    if not ok:
                        bad.append(("unary", op, c, e, p1, p2))
                for c2 in (0, 7, -15):
                    for op in range(3):
                        try:
                            ok = _br(op, c, e, c2, 0, p1, p2, 0)
                        except Exception:
                            ok = False
                        if not ok:
                            bad.append(("binary", op, c, e, c2, p1, p2))
                    try:
                        ok = _cr(c, e, c2, 0, p1, p2, 0)
                    except Exception:
                        ok = False
                    if not ok:
                        bad.append(("compare", c, e, c2, p1, p2))
    # large operands that differ by a fraction of one unit of the smaller prefix
    for (p1, p2) in ((9, 0), (0, -9), (24, 3), (3, -9), (3, 3)):
        for c1 in (1, 3, 123456789):
            for k in (1, 2, 3):
                for d in (-25, -5, -2, -1, 0, 1, 2, 5, 25):
                    c2 = c1 * 10 ** (p1 - p2 + k) + d
                    if c2 >= 10 ** 27:
                        continue  # (operands beyond the 28-digit decimal context are outside the claim)
                    try:
                        ok = _cr(c1, 0, c2, -k, p1, p2, 0) and _cr(c2, -k, c1, 0, p2, p1, 0)
                    except Exception:
                        ok = False
                    if not ok:
                        bad.append(("compare-big", c1, c2, -k, p1, p2))
    env.reached()
    WHY = globals().setdefault("WHY", {})
    WHY["bad"] = bad[:5]
    return not bad
