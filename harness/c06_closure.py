"""C06: every package any successful to_proto returns is closed and self-consistent.
The quantifier is instantiated by the symbolic design families of C01/C04/C10/C15/C16/C19 (riders:
their post-condition includes vlib.pkgread.check_package, from_proto and both netlisters on every
explored path).  This module adds the repository's own programs as CONCRETE seeds (no inputs to make
symbolic - reported separately, not counted as solver-decided)."""
import io
import sys
from vlib import env
from vlib.spec import harness
import hdl21 as h
from vlib.pkgread import check_package


def _validate(pkg):
    import vlsirtools
    probs = check_package(pkg)
    if probs:
        return "not closed: " + "; ".join(probs[:3])
    try:
        h.from_proto(pkg)
    except Exception as ex:
        return "from_proto: " + repr(ex)[:200]
    for fmt in ("spice", "spectre"):
        try:
            vlsirtools.netlist(pkg=pkg, dest=io.StringIO(), fmt=fmt)
        except Exception as ex:
            if "direct-netlisting of physical" in str(ex):
                continue  # generic physical primitives are documented as not netlistable before PDK compilation
            return fmt + " netlister: " + repr(ex)[:200]
    return ""


WHY = {}


@harness("C06", args="which: int", concrete=True, sample=(0,),
         bounds="concrete seeds: the repository's examples/*.py main() programs; every package their to_proto / netlist calls produce is validated")
def examples_closed(which):
    """run every example main(); capture each package produced by to_proto (netlist() goes through it)"""
    ran, captured = capture_examples()
    env.reached()
    WHY["n"] = len(captured)
    if ran < 7 or not captured:
        return False
    for pkg in captured:
        why = _validate(pkg)
        if why:
            WHY["why"] = why
            raise AssertionError(why)
    return True


def capture_examples():
    import os
    env.reset_all()
    sys.path.insert(0, os.environ.get("VERIF_REPO", "/repo"))
    import importlib
    import hdl21.netlisting as nl
    import hdl21.proto.exporting as ex
    import hdl21.sim.proto as sp
    captured = []
    orig = ex.to_proto

    def spy(*a, **k):
        pkg = orig(*a, **k)
        captured.append(pkg)
        return pkg

    targets = [(nl, "to_proto"), (h, "to_proto"), (sp, "module_to_proto") if hasattr(sp, "module_to_proto") else (h, "to_proto")]
    saved = [(m, n, getattr(m, n)) for m, n in targets]
    for m, n in targets:
        setattr(m, n, spy)
    ran = 0
    so = sys.stdout
    sys.stdout = io.StringIO()
    try:
        for name in ("ro", "rdac", "encoder", "diff_ota", "idac", "bundles", "mos_sim"):
            mod = importlib.import_module("examples." + name)
            mod.main()
            ran += 1
    finally:
        sys.stdout = so
        for m, n, v in saved:
            setattr(m, n, v)
    return ran, captured


@harness("C06", args="which: int", concrete=True, sample=(0,),
         bounds="concrete seeds: built-in generators at documented parameter points (Series n=1..4 over R / Mos, MosStack, Wrapper, CmDmGen, Balun)")
def builtin_generators_closed(which):
    env.reset_all()
    from hdl21.generators import Series, MosStack, Wrapper
    from hdl21.primitives import R, Mos, MosType
    pkgs = []
    for n in (1, 2, 3, 4):
        pkgs.append(h.to_proto(Series(unit=R(r=1), nser=n, conns=["p", "n"])))
        pkgs.append(h.to_proto(MosStack(unit=Mos(tp=MosType.NMOS), nser=n)))
    pkgs.append(h.to_proto(Wrapper(R(r=2))))
    try:
        from hdl21.generators import CmDmGen, Balun
        pkgs.append(h.to_proto(Balun()))
    except Exception:
        pass
    env.reached()
    for pkg in pkgs:
        why = _validate(pkg)
        if why:
            raise AssertionError(why)
    return True


NAMES = ["r_0", "r_1", "q_p", "q_n", "i_a", "b_x", "xy", "j_b", "zz"]


@harness("C06", args="sn: int, inn: int, late: bool", pre=[f"0 <= sn < {len(NAMES)}", f"0 <= inn < {len(NAMES)}", "sn != inn"],
         tiers={"quick": {"timeout": 150}}, sample=(0, 2, False),
         bounds="a module using every name-inventing construct (array r, pair q, implicit port-reference signal i_a, bundle b.x, named no-connect xy, unnamed no-connect j_b) next to a designer signal and a designer instance whose names are drawn from those invented names; declared before or after; post: the exported package is closed, from_proto and both netlisters accept it (or elaboration raised)",
         generalises="name selectors (solver-enumerated)", outside="")
def invented_names_closed(sn, inn, late):
    sn, inn = env.pick(sn, 0, len(NAMES) - 1), env.pick(inn, 0, len(NAMES) - 1)
    late = bool(late)
    with env.notrace():
        return _invented(NAMES[sn], NAMES[inn], late)


def _invented(sname, iname, late):
    env._reset_all()
    C = h.ExternalModule(name="Cell", port_list=[h.Port(name="a"), h.Port(name="b")], paramtype=dict)
    P = h.Module(name="PCell")
    P.q, P.g = h.Port(), h.Port()
    P.c = C({})(a=P.q, b=P.g)
    B = h.Bundle(name="B")
    B.add(h.Signal(name="x"))
    m = h.Module(name="Top")
    sig = h.Signal(name=sname)
    mine = h.Instance(name=iname, of=C({}))
    if not late:
        m.add(sig), m.add(mine)
    m.s = h.Signal()
    m.d2 = h.Signal(width=2)
    m.b = h.BundleInstance(of=B)
    m.dd = h.Diff()
    m.r = h.InstanceArray(of=C({}), n=2)(a=sig, b=m.d2)
    m.q = h.Pair(of=P)(q=m.dd, g=sig)
    m.i = C({})(b=sig)
    m.j = C({})(a=m.i.a, b=h.NoConn())
    m.k = C({})(a=m.b.x, b=h.NoConn(name="xy"))
    # one bundle instance with two members whose flattened names coincide (a scalar `x_y` next to sub-bundle `x` with member `y`)
    Inner = h.Bundle(name="Inner")
    Inner.add(h.Signal(name="y", width=2))
    Outer = h.Bundle(name="Outer")
    Outer.add(h.Signal(name="x_y"))
    Outer.add(h.BundleInstance(name="x", of=Inner))
    W = h.ExternalModule(name="Wide", port_list=[h.Port(name="a", width=2), h.Port(name="b")], paramtype=dict)
    m.o = h.BundleInstance(of=Outer)
    m.wq = W({})(a=m.o.x.y, b=m.o.x_y)
    if late:
        m.add(sig), m.add(mine)
    mine.connect("a", sig)
    mine.connect("b", m.s)
    try:
        pkg = h.to_proto(m)
    except Exception:
        env.COUNTS["reached"] += 1
        return True
    env.COUNTS["reached"] += 1
    why = _validate(pkg)
    if why:
        WHY["why"] = why
        return False
    # the designer's signal is still declared, and the designer's instance still connects to it
    pm = pkg.modules[-1]
    if sname not in [x.name for x in pm.signals]:
        WHY["why"] = "designer signal vanished"
        return False
    mi = [i for i in pm.instances if i.name == iname]
    return len(mi) == 1 and {c.portname: c.target.sig for c in mi[0].connections} == {"a": sname, "b": "s"}


DOMS = ["", "lib_a", "lib_b"]


def _namesakes(same, d0, d1, w0, w1, deep):
    """two external modules, possibly with one name in different domains, instantiated side by side / at two levels"""
    env._reset_all()
    A = h.ExternalModule(name="res", domain=DOMS[d0], port_list=[h.Port(name="p", width=w0), h.Port(name="n")], paramtype=dict)
    B = h.ExternalModule(name="res" if same else "cap", domain=DOMS[d1], port_list=[h.Port(name="p", width=w1), h.Port(name="n")], paramtype=dict)
    m = h.Module(name="Top")
    m.x, m.y, m.g = h.Signal(width=w0), h.Signal(width=w1), h.Signal()
    m.ra = A({})(p=m.x, n=m.g)
    if deep:
        c = h.Module(name="Child")
        c.y, c.g = h.Port(width=w1), h.Port()
        c.rb = B({})(p=c.y, n=c.g)
        m.c = c(y=m.y, g=m.g)
        m.ra2 = A({})(p=m.x, n=m.g)
    else:
        m.rb = B({})(p=m.y, n=m.g)
    return m


@harness("C06", args="same: bool, d0: int, d1: int, w0: int, w1: int, deep: bool", pre=["0 <= d0 <= 2", "0 <= d1 <= 2", "1 <= w0 <= 2", "1 <= w1 <= 2"],
         tiers={"quick": {"timeout": 150}}, sample=(True, 1, 2, 1, 2, False),
         bounds="two external modules with equal or different names, in equal or different domains (3), port widths 1..2, instantiated in one module or at two levels; post: whenever to_proto returns, the package is closed (every instance refers to a declared external module, ports connected once, widths fit) and from_proto accepts it and re-exports it identically",
         generalises="selectors (solver-enumerated)", outside="acceptance by the netlisters for namesakes in different domains: see namesakes_netlist (known finding)")
def namesakes_closed(same, d0, d1, w0, w1, deep):
    P = env.pick
    same, deep, d0, d1, w0, w1 = bool(same), bool(deep), P(d0, 0, 2), P(d1, 0, 2), P(w0, 1, 2), P(w1, 1, 2)
    with env.notrace():
        from vlib.designcheck import roundtrip
        try:
            pkg = h.to_proto(_namesakes(same, d0, d1, w0, w1, deep))
        except Exception:
            env.COUNTS["reached"] += 1
            return not (not same or d0 != d1) or _no("to_proto refused two distinct external modules")
        env.COUNTS["reached"] += 1
        probs = check_package(pkg)
        if probs:
            return _no("not closed: " + "; ".join(probs[:3]))
        try:
            h.from_proto(pkg)
        except Exception as ex:
            return _no("from_proto: " + repr(ex)[:200])
        ok, why = roundtrip(pkg)
        return ok or _no(why)


def _no(msg):
    WHY["why"] = msg
    return False


_UNC = {"en": False}


@harness("C06", args="first: bool, wide: int", pre=["0 <= wide <= 1"], tiers={"quick": {"timeout": 120}}, sample=(False, 1),
         bounds="two different modules produced by equal calls of an UN-cached generator (its result depends on state outside its parameters): to_proto may refuse the name clash; a package it returns must be closed",
         generalises="selectors", outside="")
def uncached_generator_closed(first, wide):
    first, wide = bool(first), env.pick(wide, 0, 1)
    with env.notrace():
        env._reset_all()
        if "G" not in _UNC:
            @h.generator(enable_cache=False)
            def Buf(_: h.HasNoParams) -> h.Module:
                m = h.Module()
                m.inp, m.out = h.Input(width=1 + _UNC["w"]), h.Output()
                if _UNC["en"]:
                    m.en = h.Input()
                return m
            _UNC["G"] = Buf
        Buf = _UNC["G"]
        top = h.Module(name="Top")
        top.a, top.b, top.en, top.a2 = h.Signal(), h.Signal(), h.Signal(), h.Signal(width=2)
        _UNC["en"], _UNC["w"] = first, 0
        b1 = Buf()
        _UNC["en"], _UNC["w"] = not first, wide
        b2 = Buf()
        for nm, bm, en in (("b1", b1, first), ("b2", b2, not first)):
            conns = dict(inp=top.a2 if bm.inp.width == 2 else top.a, out=top.b)
            if en:
                conns["en"] = top.en
            top.add(bm(**conns), name=nm)
        try:
            pkg = h.to_proto(top)
        except Exception:
            env.COUNTS["reached"] += 1
            return True
        env.COUNTS["reached"] += 1
        probs = check_package(pkg)
        return not probs or _no("not closed: " + "; ".join(probs[:3]))


@harness("C06", args="same: bool, d0: int, d1: int, deep: bool", pre=["0 <= d0 <= 2", "0 <= d1 <= 2"],
         tiers={"quick": {"timeout": 120}}, sample=(False, 0, 1, False),
         bounds="the namesake designs with equal port lists: the spice and spectre netlisters accept every package to_proto returns (one name in two different domains: known finding)",
         generalises="selectors (solver-enumerated)", outside="")
def namesakes_netlist(same, d0, d1, deep):
    same, d0, d1, deep = bool(same), env.pick(d0, 0, 2), env.pick(d1, 0, 2), bool(deep)
    with env.notrace():
        try:
            pkg = h.to_proto(_namesakes(same, d0, d1, 2, 2, deep))
        except Exception:
            env.COUNTS["reached"] += 1
            return True
        env.COUNTS["reached"] += 1
        why = _validate(pkg)
        WHY["why"] = why
        return not why
