"""C15: PDK compilation swaps device targets and nothing else.
Finite tables: the solver enumerates (PDK, table, entry, parameter-path) selectors; each case runs
concretely.  Oracles: the PDK's own device tables read independently; vlib/dsl reference semantics for
'hierarchy, instance names and every connection unchanged'; vlib/pkgread.check_package for 'valid'."""
import io
import copy
from vlib import env
from vlib.spec import harness, parts_over, parts_product
import hdl21 as h
from hdl21.primitives import MosType, MosFamily, MosVth
from vlib.pkgread import check_package, pkg_nets

PDKS = ["sample", "sky130", "gf180", "asap7"]
BAD = (StopIteration, IndexError, KeyError, AttributeError, TypeError, NameError, AssertionError)


def pdkmod(name):
    if name == "sample":
        import hdl21.pdk.sample_pdk as m
    elif name == "sky130":
        import sky130_hdl21 as m
    elif name == "gf180":
        import gf180_hdl21 as m
    else:
        import asap7_hdl21 as m
    return m


def reset_pdk_caches():
    import sys
    for n in ("sky130_hdl21.primitives.prim_dicts", "gf180_hdl21.primitives.prim_dicts", "asap7_hdl21.pdk"):
        m = sys.modules.get(n)
        c = getattr(m, "CACHE", None) if m else None
        if c is not None:
            for f in vars(c).values():
                if isinstance(f, dict):
                    f.clear()


def tables(name):
    """{table: {key: ExternalModule}} read from the PDK package itself"""
    m = pdkmod(name)
    out = {}
    if name in ("sky130", "gf180"):
        pd = __import__(m.__name__ + ".primitives.prim_dicts", fromlist=["x"])
        for t in ("xtors", "ress", "caps", "diodes", "bjts", "vpps"):
            if hasattr(pd, t):
                out[t] = dict(getattr(pd, t))
    elif name == "asap7":
        import asap7_hdl21.pdk as p
        out["xtors"] = {k: v for k, v in p._mos_modules.items()}
    else:
        import hdl21.pdk.sample_pdk.pdk as p
        out["xtors"] = {("nmos", MosType.NMOS): p.Nmos, ("pmos", MosType.PMOS): p.Pmos} if hasattr(p, "Nmos") else {}
    return out


WHY = {}


def _fail(msg):
    WHY["why"] = msg
    return False


def _mkmos(**kw):
    m = h.Module(name="T")
    m.d, m.g, m.s, m.b = h.Ports(4)
    m.x = h.primitives.Mos(**kw)(d=m.d, g=m.g, s=m.s, b=m.b)
    return m


def _device_ok(pkg, iname="x"):
    """the compiled instance targets an external module of the package and connects each of its ports once"""
    probs = check_package(pkg)
    if probs:
        return probs[0]
    pm = pkg.modules[-1]
    inst = [i for i in pm.instances if i.name == iname][0]
    if inst.module.WhichOneof("to") != "external":
        return "not an external device"
    key = (inst.module.external.domain, inst.module.external.name)
    if key not in {(e.name.domain, e.name.name) for e in pkg.ext_modules}:
        return f"device {key} not declared in the package (still a generic primitive?)"
    return ""


def _netlists(pkg):
    import vlsirtools
    for fmt in ("spice", "spectre"):
        try:
            vlsirtools.netlist(pkg=pkg, dest=io.StringIO(), fmt=fmt)
        except Exception as ex:
            return f"{fmt} netlister: " + repr(ex)[:200]
    return ""


def _select(pdk, ti, fi, vi):
    """documented selection by type / family / threshold"""
    env._reset_all(); reset_pdk_caches()
    P = pdkmod(pdk)
    tp, fam, vth = list(MosType)[ti], list(MosFamily)[fi], list(MosVth)[vi]
    xt = tables(pdk).get("xtors", {})
    match = [v for k, v in xt.items() if isinstance(k, tuple) and tp in k and fam in k and (vth in k or not any(isinstance(x, MosVth) for x in k))]
    m = _mkmos(tp=tp, family=fam, vth=vth)
    env.COUNTS["reached"] += 1
    try:
        P.compile(m)
    except BAD as ex:
        return _fail(f"{pdk} selection {tp.name}/{fam.name}/{vth.name}: non-descriptive {type(ex).__name__}: {str(ex)[:100]}")
    except Exception as ex:
        if len(match) == 1 and pdk != "sample":
            return _fail(f"{pdk}: exactly one table entry matches {tp.name}/{fam.name}/{vth.name} but compile raised {repr(ex)[:150]}")
        return True  # a descriptive error for a request no (single) device satisfies
    of = m.instances["x"].of
    if not isinstance(of, h.ExternalModuleCall):
        return _fail("instance was not re-targeted")
    if pdk in ("sky130", "gf180") and match and not any(of.module is v for v in match):
        return _fail(f"{pdk}: selected {of.module.name}, not among the table entries matching {tp.name}/{fam.name}/{vth.name}")
    if pdk in ("sky130", "gf180") and not match:
        return _fail(f"{pdk}: no table entry matches {tp.name}/{fam.name}/{vth.name} but {of.module.name} was selected")
    pkg = h.to_proto(m)
    why = _device_ok(pkg) or _netlists(pkg)
    return not why or _fail(f"{pdk} {tp.name}/{fam.name}/{vth.name}: " + why)


def _val(x):
    from decimal import Decimal
    if isinstance(x, h.Prefixed):
        return x.number * Decimal(10) ** x.prefix.value
    if isinstance(x, (int, float)):
        return Decimal(str(x))
    if isinstance(x, str):
        try:
            return Decimal(x)
        except Exception:
            return None
    return None


def _sizes(pdk, emod, params, kw):
    """'sized with the given values or the PDK's defaults': for devices whose parameter class carries a width and a
    length, each must equal the given value, or - when not given - the PDK's own default table entry"""
    wn = next((n for n in ("w", "r_width", "c_width") if hasattr(params, n)), None)
    ln = next((n for n in ("l", "r_length", "c_length") if hasattr(params, n)), None)
    if (wn is None or ln is None) and pdk == "gf180" and hasattr(params, "area") and hasattr(params, "pj"):
        # (GF180's diode parameters are in SI units; Sky130 scales its own to microns: not modelled here)
        return _area_pj(pdk, emod, params, kw)
    if wn is None or ln is None:
        return ""
    try:
        pd = __import__(pdkmod(pdk).__name__ + ".primitives.prim_dicts", fromlist=["x"])
    except ImportError:
        pd = None  # (a PDK without default tables)
    default = None
    for v in (vars(pd).values() if pd else ()):
        if isinstance(v, dict) and emod.name in v and isinstance(v[emod.name], tuple) and len(v[emod.name]) == 2:
            default = v[emod.name]
    for given, attr, idx in ((kw.get("w"), wn, 0), (kw.get("l"), ln, 1)):
        got = _val(getattr(params, attr))
        if given is not None:
            if got != _val(given):
                return f"{attr} = {getattr(params, attr)} although {given} was given"
        elif default is not None and got != _val(default[idx]):
            return f"{attr} = {getattr(params, attr)}, the PDK default for {emod.name} is {default[idx]}"
    return ""


def _area_pj(pdk, emod, params, kw):
    """devices sized by area and junction perimeter: area = w * l and pj = 2w + 2l of the given sizes, each size defaulting
    - independently - to the PDK's table entry"""
    try:
        pd = __import__(pdkmod(pdk).__name__ + ".primitives.prim_dicts", fromlist=["x"])
    except ImportError:
        return ""
    default = None
    for v in vars(pd).values():
        if isinstance(v, dict) and emod.name in v and isinstance(v[emod.name], tuple) and len(v[emod.name]) == 2:
            default = v[emod.name]
    w = _val(kw["w"]) if kw.get("w") is not None else (_val(default[0]) if default else None)
    l = _val(kw["l"]) if kw.get("l") is not None else (_val(default[1]) if default else None)
    if w is None or l is None:
        return ""
    if _val(params.area) != w * l or _val(params.pj) != 2 * w + 2 * l:
        return f"area = {params.area}, pj = {params.pj} for w = {w}, l = {l} (given {kw.get('w')}, {kw.get('l')})"
    return ""


def _mult(params, kw):
    """a given multiplier reaches the device (its `mult`, `m`, `vm` or `mf` parameter - the PDKs' parameter classes use one of these), whatever was compiled
    earlier in the process"""
    if kw.get("mult") is None:
        return ""
    have = {a: getattr(params, a) for a in ("mult", "m", "vm", "mf") if hasattr(params, a)}
    if not have or any(_val(v) == _val(kw["mult"]) for v in have.values()):
        return ""
    return f"multiplier parameters {have} although mult = {kw['mult']} was given"


PRIMS = {"xtors": "Mos", "ress": "PhysicalResistor", "caps": "PhysicalCapacitor", "diodes": "Diode", "bjts": "Bipolar", "vpps": "PhysicalCapacitor"}


def _model(pdk, table, idx, sized, mult):
    """every entry of every device table, by model name"""
    env._reset_all(); reset_pdk_caches()
    P = pdkmod(pdk)
    tb = tables(pdk).get(table, {})
    keys = list(tb)
    if idx >= len(keys):
        return True
    key = keys[idx]
    emod = tb[key]
    model = key[0] if isinstance(key, tuple) else key
    cands = {"xtors": ["Mos"], "ress": ["PhysicalResistor", "ThreeTerminalResistor"], "caps": ["PhysicalCapacitor", "ThreeTerminalCapacitor"],
             "diodes": ["Diode"], "bjts": ["Bipolar"]}[table]
    prims = [getattr(h.primitives, c) for c in cands]
    fit = [p for p in prims if set(p.ports) == set(emod.ports)]
    prim = fit[0] if fit else prims[0]  # no generic primitive has this device's terminals: the nearest one
    kw = {"model": model}
    fields = set(prim.Params.__params__) if hasattr(prim.Params, "__params__") else set()
    # sized: 0 = both defaulted, 1 = both given, 2 = only w given, 3 = only l given
    if sized in (1, 2) and "w" in fields:
        kw["w"] = 3 * h.prefix.µ
    if sized in (1, 3) and "l" in fields:
        kw["l"] = 2 * h.prefix.µ
    def mval(v):
        # (the capacitor parameter class declares its multiplier as a string)
        return str(v) if "str" in str(prim.Params.__params__["mult"].dtype) else v
    if mult and "mult" in fields:
        kw["mult"] = mval(3)
    m = h.Module(name="T")
    ports = {p: m.add(h.Port(name=p)) for p in prim.ports}
    try:
        m.x = prim(**kw)(**ports)
    except Exception:
        return True  # this parameter combination does not exist for the generic primitive
    env.COUNTS["reached"] += 1
    try:
        P.compile(m)
    except BAD as ex:
        return _fail(f"{pdk}.{table}[{model}]: non-descriptive {type(ex).__name__}: {str(ex)[:120]}")
    except Exception as ex:
        if not fit:
            return True  # a descriptive error: no generic primitive can be mapped onto this device
        return _fail(f"{pdk}.{table}[{model}]: compile raised {repr(ex)[:200]}")
    of = m.instances["x"].of
    if not isinstance(of, h.ExternalModuleCall) or of.module is not emod:
        return _fail(f"{pdk}.{table}[{model}]: compiled to {getattr(getattr(of, 'module', None), 'name', of)}")
    try:
        pkg = h.to_proto(m)
    except Exception as ex:
        return _fail(f"{pdk}.{table}[{model}]: compiled design invalid: {str(ex).splitlines()[-1][:200]}")
    why = _device_ok(pkg) or _netlists(pkg) or _sizes(pdk, emod, of.params, kw) or _mult(of.params, kw)
    if why:
        return _fail(f"{pdk}.{table}[{model}]: " + why)
    # compile twice = compile once; equal parameters give the same device call
    P.compile(m)
    if m.instances["x"].of is not of:
        return _fail(f"{pdk}.{table}[{model}]: second compile changed the target")
    m2 = h.Module(name="T2")
    ports2 = {p: m2.add(h.Port(name=p)) for p in prim.ports}
    m2.x = prim(**kw)(**ports2)
    P.compile(m2)
    if m2.instances["x"].of is not of:
        return _fail(f"{pdk}.{table}[{model}]: equal parameters gave a different device call")
    # a model name that is NOT in the table - a truncated or otherwise partial name of this entry - raises a descriptive error
    for bad_name in (model[:-1], model[1:], model[: len(model) // 2], model + "_x"):
        if not bad_name or any((k[0] if isinstance(k, tuple) else k) == bad_name for k in keys):
            continue
        mb = h.Module(name="TB")
        pb = {p: mb.add(h.Port(name=p)) for p in prim.ports}
        try:
            mb.x = prim(model=bad_name)(**pb)
        except Exception:
            continue
        try:
            P.compile(mb)
        except BAD as ex:
            return _fail(f"{pdk}.{table}: unknown model {bad_name!r}: non-descriptive {type(ex).__name__}")
        except Exception:
            continue
        return _fail(f"{pdk}.{table}: unknown model {bad_name!r} compiled to {getattr(getattr(mb.instances['x'].of, 'module', None), 'name', '?')} instead of raising")
    # ... and different parameters a different one: the same model again, later in the same process, with another multiplier / width
    kw3 = dict(kw)
    if "mult" in fields:
        kw3["mult"] = mval(int(kw.get("mult") or 1) + 5)
    elif "w" in fields:
        kw3["w"] = 7 * h.prefix.µ
    else:
        return True
    m3 = h.Module(name="T3")
    ports3 = {p: m3.add(h.Port(name=p)) for p in prim.ports}
    try:
        m3.x = prim(**kw3)(**ports3)
        P.compile(m3)
    except Exception:
        return True
    of3 = m3.instances["x"].of
    why = _sizes(pdk, emod, of3.params, kw3) or _mult(of3.params, kw3)
    if why:
        return _fail(f"{pdk}.{table}[{model}] after an earlier compile of the same model: " + why)
    return True


def _reset_registry(hp):
    """empty hdl21.pdk's process-global registry (private state: tolerate a refactor)"""
    try:
        mgr = hp.pdk._mgr
        mgr.modules.clear(); mgr.names.clear(); mgr.default = None
        return True
    except AttributeError:
        return False


def _hier(pdk, depth, share, twice, form):
    """generic primitives at any depth of a hierarchy with shared sub-modules: only Instance.of changes"""
    from vlib.dsl import Mod, Inst, Prim, Ext, Sig, Idx
    from vlib.build import build
    env._reset_all(); reset_pdk_caches()
    P = pdkmod(pdk)
    mos = Prim("Mos", dict(tp=MosType.NMOS, family=MosFamily.CORE, vth=MosVth.STD), ("d", "g", "s", "b"))
    pm = Prim("Mos", dict(tp=MosType.PMOS, family=MosFamily.CORE, vth=MosVth.STD), ("d", "g", "s", "b"))
    other = Ext("Other", [("a", 2), ("b", 1)])
    inv = Mod("Inv", ports=[("i", 1), ("o", 1), ("vdd", 1), ("vss", 1)], insts=[
        Inst("n", mos, {"d": Sig("o"), "g": Sig("i"), "s": Sig("vss"), "b": Sig("vss")}),
        Inst("p", pm, {"d": Sig("o"), "g": Sig("i"), "s": Sig("vdd"), "b": Sig("vdd")}),
        Inst("r", Prim("R", dict(r=5)), {"p": Sig("i"), "n": Sig("o")})])
    inv2 = inv if share else Mod("Inv2", ports=list(inv.ports), insts=[Inst(i.name, i.of, dict(i.conns)) for i in inv.insts])
    buf = Mod("Buf", ports=[("i", 1), ("o", 1), ("vdd", 1), ("vss", 1)], sigs=[("m", 1), ("bus", 2)], insts=[
        Inst("a", inv, {"i": Sig("i"), "o": Sig("m"), "vdd": Sig("vdd"), "vss": Sig("vss")}),
        Inst("b", inv2, {"i": Sig("m"), "o": Sig("o"), "vdd": Sig("vdd"), "vss": Sig("vss")}),
        Inst("x", other, {"a": Sig("bus"), "b": Sig("m")}),
        Inst("n2", mos, {"d": Sig("o"), "g": Idx(Sig("bus"), 0), "s": Sig("vss"), "b": Sig("vss")})])
    top = buf if depth == 0 else Mod("Top", ports=[("i", 1), ("o", 1), ("vdd", 1), ("vss", 1)], sigs=[("q", 1)], insts=[
        Inst("b0", buf, {"i": Sig("i"), "o": Sig("q"), "vdd": Sig("vdd"), "vss": Sig("vss")}),
        Inst("b1", buf, {"i": Sig("q"), "o": Sig("o"), "vdd": Sig("vdd"), "vss": Sig("vss")}),
        Inst("c", inv2, {"i": Sig("q"), "o": Sig("o"), "vdd": Sig("vdd"), "vss": Sig("vss")})])
    m = build(top)
    before, bl = pkg_nets(h.to_proto(m), with_params=False)
    env.COUNTS["reached"] += 1
    import hdl21.pdk as hp
    if twice:
        # unrelated earlier work on the same module objects: a read-only walk of the hierarchy (public hdl21.walker API)
        try:
            from hdl21.walker import HierarchyWalker
            HierarchyWalker().visit_elaboratables(m)
        except ImportError:
            pass
    if not _reset_registry(hp) and form != 0:
        return True  # the PDK registry cannot be emptied from outside (internals changed): registry forms are not exercised
    try:
        if form == 0:
            P.compile(m)
        elif form == 1:
            hp.register(P); hp.compile(m)                      # the only registered PDK is the default
        elif form == 2:
            hp.register(P); hp.register(pdkmod("sample" if pdk != "sample" else "asap7")); hp.compile(m, pdk=P.__name__)
        elif form == 3:
            hp.compile(m, pdk=P)                                # by module
        else:
            # another PDK is registered AND is the default; the request names this one explicitly (4: by name, 5: by module)
            O = pdkmod("sample" if pdk != "sample" else "asap7")
            hp.register(P); hp.register(O); hp.set_default(O)
            hp.compile(m, pdk=P.__name__ if form == 4 else P)
        if twice:
            P.compile(m)
    except BAD as ex:
        return _fail(f"{pdk} compile form {form}: non-descriptive {type(ex).__name__}: {str(ex)[:150]}")
    finally:
        _reset_registry(hp)
    pkg = h.to_proto(m)
    probs = check_package(pkg)
    if probs:
        return _fail(f"{pdk}: compiled hierarchy not valid: {probs[0]}")
    if form != 0:
        # however the PDK was named, the result is what that PDK's own compile() makes of the same design
        m2 = build(top)
        P.compile(m2)
        if h.to_proto(m2).SerializeToString(deterministic=True) != pkg.SerializeToString(deterministic=True):
            return _fail(f"{pdk}: hdl21.pdk.compile form {form} differs from {pdk}'s own compile()")
    after, al = pkg_nets(pkg, with_params=False)
    if before != after:
        return _fail(f"{pdk}: connectivity changed by compilation")
    if [x[0] for x in bl] != [x[0] for x in al]:
        return _fail(f"{pdk}: leaf instances changed: {[x[0] for x in al][:4]}")
    for (path, dev, _), (_, dev2, _) in zip(bl, al):
        generic = dev == "Mos"
        if generic and dev2 == "Mos":
            return _fail(f"{pdk}: {path} was not re-targeted")
        if not generic and dev2 != dev:
            return _fail(f"{pdk}: non-mapped instance {path} changed from {dev} to {dev2}")
    # equal primitive parameters give the same device call object everywhere in the hierarchy
    calls = {}
    def rec(mod):
        for i in mod.instances.values():
            if isinstance(i.of, h.Module):
                rec(i.of)
            elif isinstance(i.of, h.ExternalModuleCall) and i.name in ("n", "p", "n2"):
                calls.setdefault(i.name if i.name != "n2" else "n", set()).add(id(i.of))
    rec(m)
    if any(len(v) != 1 for v in calls.values()):
        return _fail(f"{pdk}: equal parameters gave {[(k, len(v)) for k, v in calls.items()]} distinct device calls")
    why = _netlists(pkg)
    return not why or _fail(f"{pdk}: " + why)


def _cells(lib, idx, stride):
    """logic-cell libraries: every cell instantiated with all ports connected, exported and netlisted"""
    env._reset_all()
    mods = cell_list(lib)
    ok = True
    for k in range(idx, len(mods), stride):
        name, em = mods[k]
        m = h.Module(name="T")
        conns = {}
        for p in em.port_list:
            conns[p.name] = m.add(h.Signal(name="n_" + p.name, width=p.width))
        try:
            m.add(h.Instance(name="x", of=em()))
            for p, sig in conns.items():
                m.x.connect(p, sig)
            pkg = h.to_proto(m)
        except Exception as ex:
            return _fail(f"{lib} cell {name}: {repr(ex)[:200]}")
        why = _device_ok(pkg) or _netlists(pkg)
        if why:
            return _fail(f"{lib} cell {name}: {why}")
        env.COUNTS["reached"] += 1
    return ok


_CELLS = {}


def cell_list(lib):
    """[(name, ExternalModule)] of every logic cell of the library, in a fixed order"""
    if lib not in _CELLS:
        import importlib, pkgutil, os
        m = pdkmod(lib)
        path = os.path.join(os.path.dirname(m.__file__), "digital_cells")
        out = []
        for mi in sorted(pkgutil.iter_modules([path]), key=lambda x: x.name):
            sub = importlib.import_module(m.__name__ + ".digital_cells." + mi.name)
            for k, v in vars(sub).items():
                if isinstance(v, h.ExternalModule):
                    out.append((mi.name + "." + k, v))
        _CELLS[lib] = out
    return _CELLS[lib]


# ---- harness registration ------------------------------------------------------------------------
NT, NF, NV = len(MosType), len(MosFamily), len(MosVth)
TABLES = ["xtors", "ress", "caps", "diodes", "bjts"]


@harness("C15", args="pi: int, ti: int, fi: int, vi: int", pre=["0 <= pi <= 3", f"0 <= ti < {NT}", f"0 <= fi < {NF}", f"0 <= vi < {NV}"],
         tiers={"quick": {"timeout": 170, "parts": parts_over("pi", range(4))}}, sample=(2, 0, 1, 0),
         bounds="documented selection by type / family / threshold: the whole enum product for the sample, Sky130, GF180 and ASAP7 PDKs; a selected device must be among the table entries carrying the three values, be valid and netlist; otherwise a descriptive error (not StopIteration / IndexError / KeyError / AttributeError)",
         generalises="enum selectors (solver-enumerated)", outside="")
def select(pi, ti, fi, vi):
    P = env.pick
    pi, ti, fi, vi = P(pi, 0, 3), P(ti, 0, NT - 1), P(fi, 0, NF - 1), P(vi, 0, NV - 1)
    with env.notrace():
        return _select(PDKS[pi], ti, fi, vi)


@harness("C15", args="pi: int, tb: int, idx: int, sized: int, mult: bool", pre=["1 <= pi <= 2", "0 <= tb <= 4", "0 <= idx <= 20", "0 <= sized <= 3"],
         tiers={"quick": {"timeout": 170, "parts": parts_product(parts_over("pi", (1, 2)), parts_over("tb", range(5)))}}, sample=(1, 1, 3, 2, False),
         bounds="every entry of every Sky130 / GF180 device table (mos, res, cap, diode, bjt) selected by model name through the generic primitive with the same terminals, both sizes / only w / only l / neither given (given values or the PDK's own default-table entries must arrive), multiplier given or not: the instance targets that entry, every device port is connected once, the package is closed, spice and spectre netlists emit, compiling twice = once, equal parameters give the same call object",
         generalises="table / entry / parameter-path selectors (solver-enumerated)", outside="parameter VALUES (sizes are fixed 3u / 2u); vpp capacitors (not technology-mapped)")
def model(pi, tb, idx, sized, mult):
    P = env.pick
    pi, tb, idx, sized = P(pi, 1, 2), P(tb, 0, 4), P(idx, 0, 20), P(sized, 0, 3)
    mult = bool(mult)
    with env.notrace():
        return _model(PDKS[pi], TABLES[tb], idx, sized, mult)


@harness("C15", also=("C06",), args="pi: int, depth: int, share: bool, twice: bool, form: int", pre=["0 <= pi <= 3", "0 <= depth <= 1", "0 <= form <= 5"],
         tiers={"quick": {"timeout": 170, "parts": parts_over("pi", range(4))}}, sample=(0, 1, True, True, 3),
         bounds="a 3-level hierarchy with shared sub-modules, generic Mos instances at every level next to ideal primitives and an external module; 4 PDKs; compile directly / as the default PDK / by name with two PDKs registered / by module / by name or module while ANOTHER registered PDK is the default; every indirect form must equal the PDK's own compile(); once or twice (then also after a read-only walk of the same hierarchy): leaf-level connectivity, instance names and non-mapped instances unchanged, equal parameters give one call object, package closed, netlists emit",
         generalises="shape / registry selectors (solver-enumerated)", outside="")
def compile_hier(pi, depth, share, twice, form):
    P = env.pick
    pi, depth, form = P(pi, 0, 3), P(depth, 0, 1), P(form, 0, 5)
    share, twice = bool(share), bool(twice)
    with env.notrace():
        return _hier(PDKS[pi], depth, share, twice, form)


@harness("C15", args="li: int, k: int", pre=["0 <= li <= 1", "0 <= k < 16"],
         tiers={"quick": {"timeout": 170, "pre": ["k == 0"], "parts": parts_over("li", (0, 1))},
                "thorough": {"timeout": 1500, "parts": parts_product(parts_over("li", (0, 1)), parts_over("k", range(16)))}},
         sample=(1, 3),
         bounds="logic-cell libraries of Sky130 (2690 cells) and GF180 (458 cells): each cell instantiated with all ports connected, exported, validated and netlisted in spice and spectre; quick: every 16th cell (offset rotated by VERIF_SEED), thorough: all",
         generalises="cell index (enumerated)", outside="")
def cells(li, k):
    import os
    li, k = env.pick(li, 0, 1), env.pick(k, 0, 15)
    with env.notrace():
        off = (k + int(os.environ.get("VERIF_SEED", "0") or 0)) % 16
        return _cells(("sky130", "gf180")[li], off, 16)
