"""C05: names invented during elaboration never capture the designer's names.
The designer-chosen name is a SYMBOLIC STRING; nothing about the elaborator's naming rules is written
here - the solver derives colliding names from the code.  One harness per naming site.  Checked first
on the elaborated objects (identity), then on the exported package (net partition) with the names
realised (protobuf rejects proxy strings)."""
from vlib import env
from vlib.spec import harness, parts_over, parts_product
import hdl21 as h
from vlib.pkgread import pkg_nets, check_package


def _cell():
    return h.ExternalModule(name="Cell", port_list=[h.Port(name="a"), h.Port(name="b")], paramtype=dict)


def _same_net(pkg, t1, t2):
    nets, _ = pkg_nets(pkg)
    for g in nets:
        if t1 in g:
            return t2 in g
    return False


def _finish(m, sig, designer_terms, private_terms):
    """after elaboration: designer's object kept under its name and still connected; invented nets private.
    designer_terms: [(inst, port)] that the designer tied to `sig`; private_terms: [(inst, port)] that must
    each sit on a net of their own (or on the given group)."""
    nm = sig.name
    if m.signals.get(nm, None) is not sig and m.ports.get(nm, None) is not sig:
        return False  # replaced or shadowed
    for inst, port in designer_terms:
        if m.instances[inst].conns[port] is not sig:
            return False
    for inst, port in private_terms:
        c = m.instances[inst].conns[port]
        if c is sig:
            return False
        if m.signals.get(c.name, None) is not c:
            return False  # the invented signal is not the one registered under its own name
        if c.name == nm:
            return False  # two objects under one export name
    if env.SYM:
        return True  # protobuf rejects proxy strings: the package-level observation runs in the concrete replay
    # second observation: the exported package
    pkg = h.to_proto(m)
    with env.notrace():
        if check_package(pkg):
            return False
        for inst, port in private_terms:
            for inst2, port2 in designer_terms:
                if _same_net(pkg, ((inst,), port, 0), ((inst2,), port2, 0)):
                    return False
    return True


OWN = ("i", "j", "k", "u", "b", "r", "q", "s", "d", "dd", "bp", "d2")  # names the designer (this harness) gives to other objects of the same module


def _site(site, nm, nm2, late):
    if nm in OWN or nm2 in OWN:
        return True  # the designer re-using one of their own names is not an invented-name clash (C18's subject)
    env.reset_all()
    m = h.Module(name="Top")
    C = _cell()
    sig = h.Port(name=nm) if site in (9, 10, 12, 15) else h.Signal(name=nm)  # 9 / 10 / 12 / 15: the designer's object is a PORT
    extra = h.Signal(name=nm2) if site == 7 else None
    if site == 9:
        site_eff = 2
    elif site == 10:
        site_eff = 1
    elif site == 12:
        site_eff = 0
    elif site == 15:
        site_eff = 14
    else:
        site_eff = site
    site, site_orig = site_eff, site
    if not late:
        m.add(sig)
        if extra is not None:
            m.add(extra)
    des, priv = [("u", "a"), ("u", "b")], []
    if site == 0:      # named no-connect
        m.i = C({})(a=sig, b=h.NoConn(name="xy"))
        des, priv = [("i", "a")], [("i", "b")]
    elif site == 1:    # unnamed no-connect -> implicit <inst>_<port>
        m.i = C({})(a=sig, b=h.NoConn())
        des, priv = [("i", "a")], [("i", "b")]
    elif site in (2, 7):  # implicit signal behind a port reference (7: with the underscore retry name taken too)
        m.i = C({})(b=sig)
        m.j = C({})(a=m.i.a, b=sig)
        des, priv = [("i", "b"), ("j", "b")], [("i", "a"), ("j", "a")]
    elif site == 3:    # flattened bundle member <bundle>_<member>
        B = h.Bundle(name="B")
        B.add(h.Signal(name="x"))
        m.b = h.BundleInstance(of=B)
        m.i = C({})(a=sig, b=m.b.x)
        des, priv = [("i", "a")], [("i", "b")]
    elif site == 8:    # several members of one bundle whose flattened names collide with each other / the retry name
        Y = h.Bundle(name="Y")
        Y.add(h.Signal(name="z"))
        B = h.Bundle(name="B")
        B.add(h.Signal(name="x"))
        B.add(h.Signal(name="x_"))
        B.add(h.Signal(name="y_z"))
        B.add(h.BundleInstance(name="y", of=Y))
        m.b = h.BundleInstance(of=B)
        m.i = C({})(a=m.b.x, b=m.b.x_)
        m.j = C({})(a=m.b.y_z, b=m.b.y.z)
        des, priv = [], [("i", "a"), ("i", "b"), ("j", "a"), ("j", "b")]
    elif site == 14:   # instance-array elements <array>_<k> against a designer SIGNAL / PORT of that name
        m.d2 = h.Signal(width=2)
        m.r = h.InstanceArray(of=C({}), n=2)(a=sig, b=m.d2)
        des, priv = [], []
    elif site == 4:    # one named no-connect object shared by two ports
        nc = h.NoConn(name="xy")
        m.i = C({})(a=sig, b=nc)
        m.j = C({})(a=sig, b=nc)
        des, priv = [("i", "a"), ("j", "a")], [("i", "b"), ("j", "b")]
    m.u = C({})(a=sig, b=sig)
    if late:
        m.add(sig)
        if extra is not None:
            m.add(extra)
    try:
        h.elaborate(m)
    except Exception:
        env.reached()
        return True  # a clash resolved by raising
    env.reached()
    ok = _finish(m, sig, des + [("u", "a"), ("u", "b")], priv)
    if ok and site == 4:
        ok = m.instances["i"].conns["b"] is not m.instances["j"].conns["b"] and m.instances["i"].conns["b"].name != m.instances["j"].conns["b"].name
    if ok and site == 4 and not env.SYM:
        with env.notrace():
            pkg = h.to_proto(m)
            ok = not _same_net(pkg, (("i",), "b", 0), (("j",), "b", 0))
    if ok and extra is not None:
        ok = m.signals.get(extra.name, None) is extra
    if ok and site == 8:
        cs = [m.instances[i].conns[p] for i, p in priv]
        ok = len({id(c) for c in cs}) == 4 and len({c.name for c in cs}) == 4
    return ok


def _inst_site(site, nm, late):
    """array elements <arr>_<k>, pair members <pair>_<member> and (site 11) the implicit signals behind a port
    reference / an unnamed no-connect, against a designer INSTANCE named nm"""
    if nm in OWN:
        return True
    env.reset_all()
    m = h.Module(name="Top")
    C = _cell()
    s = m.add(h.Signal(name="s"))
    d = m.add(h.Signal(name="d", width=2))
    mine = h.Instance(name=nm, of=C({}))
    if not late:
        m.add(mine)
    if site == 5:
        m.r = h.InstanceArray(of=C({}), n=2)(a=s, b=d)
        gen = ("r_0", "r_1")
    elif site == 11:
        m.i = C({})(b=h.NoConn())
        m.j = C({})(a=m.i.a, b=s)
        m.k = C({})(a=s, b=h.NoConn(name="xy"))
    elif site == 13:
        # an instance bundle over a bundle whose members are `p` and `p_`: the first member's retry name is the second's own
        B2 = h.Bundle(name="B2")
        B2.add(h.Signal(name="p"))
        B2.add(h.Signal(name="p_"))
        m.bp = h.BundleInstance(of=B2)
        m.q = h.InstanceBundleType(name="BPair", bundle=B2)(C({}))(a=m.bp, b=s)
    else:
        P = h.Module(name="PCell")
        P.q, P.g = h.Port(), h.Port()
        P.c = C({})(a=P.q, b=P.g)
        m.dd = h.Diff()
        m.q = h.Pair(of=P)(q=m.dd, g=s)
    if late:
        m.add(mine)
    mine.connect("a", s)
    mine.connect("b", s)
    try:
        h.elaborate(m)
    except Exception:
        env.reached()
        return True
    env.reached()
    if m.instances.get(nm, None) is not mine:
        return False
    if mine.conns["a"] is not s or mine.conns["b"] is not s:
        return False
    n_expected = 4 if site == 11 else 3  # designer's instance + two invented (or, site 11, three further designer) ones
    if len(m.instances) != n_expected:
        return False
    if site == 11 and (m.instances["i"].conns["a"] is not m.instances["j"].conns["a"] or m.instances["i"].conns["b"] is m.instances["i"].conns["a"]):
        return False
    for k, v in m.instances.items():
        if v.name != k:
            return False
    if env.SYM:
        return True
    pkg = h.to_proto(m)
    with env.notrace():
        return not check_package(pkg)


_T = lambda n: {"quick": {"timeout": 150, "pre": [f"len(nm) <= {n}"]}, "thorough": {"timeout": 600, "pre": [f"len(nm) <= {n + 5}"]}}
_SITES = {0: "named no-connect 'xy'", 1: "unnamed no-connect (implicit i_b)", 2: "implicit signal behind a port reference (i_a)",
          3: "flattened bundle member (b_x)", 4: "one named no-connect shared by two ports",
          8: "four members of one bundle with mutually colliding flattened names (b_x, b_x_, b_y_z from a scalar and from a nested member)",
          9: "implicit signal behind a port reference (i_a) against a designer PORT", 10: "unnamed no-connect (i_b) against a designer PORT",
          12: "named no-connect 'xy' against a designer PORT",
          14: "instance-array elements (r_0, r_1) against a designer SIGNAL", 15: "instance-array elements (r_0, r_1) against a designer PORT"}
for _k, _txt in _SITES.items():
    def _mk(k):
        def f(nm, late):
            return _site(k, nm, "", late)
        f.__name__ = f.__qualname__ = f"site{k}"
        return f
    _f = _mk(_k)
    globals()[_f.__name__] = harness(
        "C05", args="nm: str, late: bool", pre=[], tiers=_T(3), sample=("r_0" if _k in (14, 15) else "xy" if _k in (0, 4, 12) else ("b_x" if _k == 8 else "i_b"), False),
        bounds=f"naming site: {_txt}; designer signal name = any string of length <= 3 (quick) / <= 8 (thorough); declared before or after the instances",
        generalises="the designer's name as a symbolic string; declaration order", outside="longer names")(_f)


@harness("C05", args="nm: str, nm2: str, late: bool", pre=[],
         tiers={"quick": {"timeout": 170, "pre": ["len(nm) <= 3", "len(nm2) <= 4", "len(nm2) >= 4"]},
                "thorough": {"timeout": 600, "pre": ["len(nm) <= 6", "len(nm2) <= 7"]}},
         sample=("i_a", "i_a_", True),
         bounds="underscore retry: two designer signals with symbolic names (<=3 and exactly 4 chars quick; <=6, <=7 thorough) next to the implicit port-reference signal",
         generalises="two designer names as symbolic strings", outside="longer names")
def site7_retry(nm, nm2, late):
    if nm == nm2:
        return True
    return _site(7, nm, nm2, late)


for _k, _txt in {5: "array element (r_0, r_1)", 6: "pair member (q_p, q_n)", 13: "members q_p, q_p_ of an instance bundle over a bundle with signals p and p_", 11: "implicit port-reference signal (i_a), unnamed no-connect (i_b) and named no-connect (xy) against a designer INSTANCE"}.items():
    def _mk2(k):
        def f(nm, late):
            return _inst_site(k, nm, late)
        f.__name__ = f.__qualname__ = f"site{k}"
        return f
    _f = _mk2(_k)
    globals()[_f.__name__] = harness(
        "C05", args="nm: str, late: bool", pre=["len(nm) >= 1"], tiers=_T(3), sample=("r_0" if _k == 5 else ("i_a" if _k == 11 else "q_p"), True),
        bounds=f"naming site: {_txt}; designer instance name = any non-empty string of length <= 3 (quick) / <= 8 (thorough); declared before or after",
        generalises="the designer's instance name as a symbolic string; declaration order", outside="longer names")(_f)


def _namer():
    """the elaborator's shared name-inventing helper, with its length limit as a parameter (None if a refactor moved it)"""
    try:
        from hdl21.elab.passes.base import ElabPass
        import inspect
        if "maxlen" not in inspect.signature(ElabPass.flatname).parameters:
            return None
        return ElabPass([])
    except Exception:
        return None


_SEGS = [("i", "p"), ("", ""), ("b_x", "y_"), ("i" * 300, "p" * 208)]  # (the last: a 509-character candidate, next to the real limit)


@harness("C05", args="sel: int, n: int, gap: int, maxlen: int", pre=["0 <= sel <= 3", "0 <= n <= 4", "0 <= gap <= 3", "0 <= maxlen"],
         tiers={"quick": {"timeout": 150, "parts": parts_over("sel", range(4))},
                "thorough": {"timeout": 600, "parts": parts_product(parts_over("sel", range(4)), parts_over("n", range(5)))}},
         sample=(0, 2, 1, 5),
         bounds="the shared name-inventing helper driven as a unit with a SYMBOLIC, UNBOUNDED length limit (the real limit, 511, is one value of it): 4 segment pairs (short, empty, with underscores, 509 characters), taken names = the first n (<= 4) underscore candidates plus the candidate `gap` (<= 3) places further on; whatever it returns is not a taken name",
         generalises="the length limit as an unbounded integer; n, gap and the segment pair are solver-enumerated selectors", outside="more than 4 consecutive taken candidates; taken names that are not underscore candidates (they cannot collide)")
def flatname_kernel(sel, n, gap, maxlen):
    sel, n, gap = env.pick(sel, 0, 3), env.pick(n, 0, 4), env.pick(gap, 0, 3)
    with env.notrace():
        p = _namer()
    if p is None:
        return True
    a, b = _SEGS[sel]
    base = a + "_" + b
    avoid = {}
    for j in range(n):
        avoid[base + "_" * j] = None
    avoid[base + "_" * (n + gap)] = None
    try:
        r = p.flatname([a, b], avoid=avoid, maxlen=maxlen)
    except RuntimeError:
        env.reached()
        return True  # refused: no capture
    env.reached()
    return r not in avoid


@harness("C05", args="seed: int", concrete=True, sample=(0,),
         bounds="concrete seed: the four signal-naming sites (named / unnamed no-connect, port-reference signal, flattened bundle member) with designer names long enough to put the invented candidate at 509..512 characters, i.e. on both sides of the 511-character limit: refusal, or a fresh name with the designer's signal and connections intact")
def length_limit(seed):
    bad = []
    for L in (509, 510, 511, 512):
        for site in (0, 1, 2, 3):
            env.reset_all()
            m = h.Module(name="Top")
            C = _cell()
            s = m.add(h.Signal(name="s"))
            if site == 0:
                cand = "x" * L
                m.add(h.Instance(name="i", of=C({})))
                m.i.connect("a", s)
                m.i.connect("b", h.NoConn(name=cand))
                priv = [("i", "b")]
            elif site == 1:
                iname = "i" * (L - 2)
                cand = iname + "_b"
                inst = m.add(h.Instance(name=iname, of=C({})))
                inst.connect("a", s)
                inst.connect("b", h.NoConn())
                priv = [(iname, "b")]
            elif site == 2:
                iname = "i" * (L - 2)
                cand = iname + "_a"
                inst = m.add(h.Instance(name=iname, of=C({})))
                inst.connect("b", s)
                m.j = C({})(a=inst.a, b=s)
                priv = [(iname, "a"), ("j", "a")]
            else:
                bname = "b" * (L - 2)
                cand = bname + "_x"
                B = h.Bundle(name="B")
                B.add(h.Signal(name="x"))
                bi = m.add(h.BundleInstance(name=bname, of=B))
                m.i = C({})(a=s, b=bi.x)
                priv = [("i", "b")]
            mine = m.add(h.Signal(name=cand))
            m.u = C({})(a=mine, b=mine)
            try:
                h.elaborate(m)
            except RecursionError:
                raise
            except Exception:
                continue
            if m.signals.get(cand, None) is not mine or m.instances["u"].conns["a"] is not mine or m.instances["u"].conns["b"] is not mine:
                bad.append((L, site, "designer signal replaced"))
                continue
            for i, p in priv:
                c = m.instances[i].conns[p]
                if c is mine or c.name == cand or m.signals.get(c.name, None) is not c:
                    bad.append((L, site, "invented net captured the designer's name"))
    env.COUNTS["reached"] += 1
    if bad:
        WHY_LIMIT["why"] = bad[:4]
    return not bad


WHY_LIMIT = {}
