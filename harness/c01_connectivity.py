"""C01 (+ riders C06, C11): design templates with symbolic widths / indices / sizes / selectors, built
through the public API, elaborated and exported by the real code, and compared with the independent
reference semantics (vlib/dsl.py) on the leaf-level net partition - read from the package the way the
VLSIR netlisters read it and, second, from the emitted spice text - plus leaf devices and parameters.
Every path also checks the C06 closure validator, from_proto, both netlisters, and the C11 round trip."""
from vlib import env
from vlib.spec import harness, parts_over, parts_product
from vlib.dsl import *
from vlib import designcheck as dc

R = lambda r=1: Prim("R", dict(r=r))


def cell(w):
    return Ext("Cell", [("a", w), ("b", w)])


# ------------------------------------------------------------------ T1 slices and concatenations
def _t1(sel, w, a, b, i, r):
    x, y = Sig("x"), Sig("y")
    if sel == 0:
        e, n = Slc(x, a, b), b - a
    elif sel == 1:
        e, n = Idx(x, i), 1
    elif sel == 2:
        e, n = Cat((x, y)), w + 1
    elif sel == 3:
        e, n = Cat((Slc(x, a, b), Idx(y, 0))), b - a + 1
    elif sel == 4:
        e, n = Slc(Cat((x, y)), a, b + 1), b + 1 - a
    elif sel == 5:
        e, n = Slc(Slc(x, a, None), 0, b - a), b - a
    elif sel == 6:
        e, n = Slc(Cat((Cat((x, y)), Idx(x, i))), a, b + 2), b + 2 - a
    else:
        e, n = Cat((Idx(x, i), Slc(x, a, b), y)), b - a + 2
    leaf = Ext("Leaf", [("a", n)], params={"k": r})
    return Mod("Top", ports=[("x", w), ("y", 1)], insts=[
        Inst("u", leaf, {"a": e}),
        Inst("rp", R(r), {"p": Idx(x, 0), "n": Sig("y")})])


@harness("C01", args="sel: int, w: int, a: int, b: int, i: int, r: int",
         pre=["0 <= sel <= 7", "1 <= w", "0 <= a < b <= w", "-w <= i < w", "1 <= r <= 3"],
         tiers={"quick": {"timeout": 170, "pre": ["w <= 3", "r == 2 or sel == 0", "i == -1 or i == 0 or sel == 1"],
                          "parts": [(f"sel0_r{r}", f"sel == 0 and r == {r}") for r in (1, 2, 3)] + parts_over("sel", range(1, 8))},
                "thorough": {"timeout": 600, "pre": ["w <= 5"], "parts": [(f"sel{s}_w{w}_a{a}", f"sel == {s} and w == {w} and a == {a}") for s in range(8) for w in range(1, 6) for a in range(w)]}},
         sample=(3, 2, 0, 1, -1, 2),
         bounds="8 expression shapes over two buses; width w<=3 (quick) / <=5 (thorough); all in-range unit-step bounds 0<=a<b<=w, index -w<=i<w; parameter value 1..3",
         generalises="bus width, slice bounds, index, parameter value", outside="wider buses; strided slices here (see C03)")
def slices_concats(sel, w, a, b, i, r):
    return dc.run(_t1(sel, w, a, b, i, r))


# ------------------------------------------------------------------ T2 port references / no-connects
def _t2(c0, c1, c2, c3, c4, w):
    """i0, i1, i2 of Cell(a[w], b[w]).  options per port:
    0 s, 1 t, 2 bus[0:w], 3 bus[w:2w], 4 unnamed no-connect, 5 named no-connect, 6 left open (must then be referenced),
    7 port reference to the previous instance's a, 8 ... b, 9 reference to the NEXT instance's a (cycles)"""
    s, t, bus = Sig("s"), Sig("t"), Sig("bus")
    names = ["i0", "i1", "i2"]

    def opt(c, k, port, nckey):
        if c == 0: return s
        if c == 1: return t
        if c == 2: return Slc(bus, 0, w)
        if c == 3: return Slc(bus, w, 2 * w)
        if c == 4: return NC(nckey)
        if c == 5: return NC(nckey, "nc%d" % nckey)
        if c == 6: return Open
        if c == 7: return PRef(names[k - 1], "a")
        if c == 8: return PRef(names[k - 1], "b")
        return PRef(names[(k + 1) % 3], "a")

    C = cell(w)
    conns = [
        # (the `a` ports share ONE no-connect object when several of them choose it: each port still gets a net of its own)
        {"a": opt(c0, 0, "a", 0), "b": opt(c1, 0, "b", 1)},
        {"a": opt(c2, 1, "a", 0), "b": opt(c3, 1, "b", 3)},
        {"a": opt(c4, 2, "a", 0), "b": s},
    ]
    return Mod("Top", ports=[("s", w), ("t", w), ("bus", 2 * w)],
               insts=[Inst(names[k], C, conns[k]) for k in range(3)])


def _t2_valid(top):
    """well-formed iff: every port is connected or referenced; a no-connected port is not referenced;
    every reference group has at most one declared source (else two designer nets would be shorted:
    the elaborator rejects that, and the property quantifies over valid designs only)"""
    insts = {i.name: i for i in top.insts}
    refd = set()
    for i in top.insts:
        for p, e in i.conns.items():
            if isinstance(e, PRef):
                refd.add((e.inst, e.port))
    for i in top.insts:
        for p, e in i.conns.items():
            if is_open(e) and (i.name, p) not in refd:
                return False
            if isinstance(e, NC) and (i.name, p) in refd:
                return False
    # group ports joined by references; count distinct declared sources per group
    uf = UF()
    for i in top.insts:
        for p, e in i.conns.items():
            if isinstance(e, PRef):
                uf.union((i.name, p), (e.inst, e.port))
    src = {}
    for i in top.insts:
        for p, e in i.conns.items():
            if not isinstance(e, (PRef, NC)) and not is_open(e):
                src.setdefault(uf.find((i.name, p)), set()).add(repr(e))
    return all(len(v) <= 1 for v in src.values())


_T2PRE = ["0 <= c0 <= 9 and c0 != 7 and c0 != 8", "0 <= c1 <= 6", "0 <= c2 <= 9", "0 <= c3 <= 8", "0 <= c4 <= 8", "1 <= w"]


@harness("C01", args="c0: int, c1: int, c2: int, c3: int, c4: int, w: int", pre=_T2PRE,
         tiers={"quick": {"timeout": 170, "pre": ["w == 1", "c4 == 0 or c4 >= 7", "c1 == 1", "c3 == 0 or c3 == 4 or c3 >= 7"],
                          "parts": parts_product(parts_over("c0", (0, 2, 4, 5, 6, 9)), [("lo", "c2 <= 4"), ("hi", "c2 >= 5")])},
                "thorough": {"timeout": 600, "pre": ["w <= 2"], "parts": parts_product(parts_over("c0", (0, 1, 2, 3, 4, 5, 6, 9)), parts_over("c1", range(7)), parts_over("c2", range(10)))}},
         sample=(2, 0, 7, 0, 0, 1),
         bounds="3 instances x 2 ports; per port one of: 2 signals, 2 bus halves, unnamed / named no-connect, open-but-referenced, reference to previous instance's a / b, reference to next instance's a (chains, fans, cycles); w = 1 (quick) / <= 2 (thorough); ill-formed combinations filtered by the oracle's validity predicate",
         generalises="port width; connection selectors (exhaustive path enumeration)", outside="more than 3 instances / 2 ports")
def portrefs(c0, c1, c2, c3, c4, w):
    top = _t2(c0, c1, c2, c3, c4, w)
    tc = env.deep_realize(top)
    with env.notrace():
        valid = _t2_valid(tc)
    if not valid:
        return True
    return dc.run(top)


# ------------------------------------------------------------------ T3 bundles
def _bdefs(w):
    B = BundleDef("B", [("x", w), ("y", 1)])
    N = BundleDef("N", [("z", 1), ("y", 1)], [("b", B)])  # (a scalar `y` of its own next to the sub-bundle's `b.y`)
    return B, N


def _t3(s0, s1, w):
    B, N = _bdefs(w)
    bleaf = Mod("BLeaf", ports=[("g", 1)], buns=[("b", B, True)], insts=[
        Inst("u", Ext("Cell", [("a", w), ("b", 1)]), {"a": BRef("b", ("x",)), "b": BRef("b", ("y",))}),
        Inst("r1", R(), {"p": Idx(BRef("b", ("x",)), 0), "n": Sig("g")})])

    def bopt(c, first):
        if c == 0: return Bun("bb")                      # internal bundle instance
        if c == 1: return Bun("pb")                      # bundle-valued port of the top
        if c == 2: return BRef("nn", ("b",))             # reference into a nested bundle
        if c == 3: return Anon((("x", Sig("sx")), ("y", Sig("t"))))
        if c == 4: return Anon((("x", Slc(Sig("wide"), 1, w + 1)), ("y", BRef("bb", ("y",)))))
        if c == 5: return Anon((("x", BRef("pb", ("x",))), ("y", Idx(Sig("wide"), 0))))
        return PRef("i0", "b") if not first else Bun("bb")
    # a leaf with a NESTED bundle port, fed by an anonymous bundle one of whose members is a whole bundle instance
    # (stored under the member's key `b`, not under the instance's own name)
    nleaf = Mod("NLeaf", ports=[], buns=[("n", N, True)], insts=[
        Inst("u", Ext("Cell", [("a", w), ("b", 1)]), {"a": BRef("n", ("b", "x")), "b": BRef("n", ("z",))}),
        Inst("r1", R(), {"p": BRef("n", ("b", "y")), "n": BRef("n", ("z",))}),
        Inst("r2", R(), {"p": BRef("n", ("y",)), "n": BRef("n", ("z",))})])
    return Mod("Top", ports=[("t", 1), ("sx", w), ("wide", w + 1)],
               buns=[("bb", B, False), ("pb", B, True), ("nn", N, False)],
               insts=[Inst("i0", bleaf, {"b": bopt(s0, True), "g": Sig("t")}),
                      Inst("i1", bleaf, {"b": bopt(s1, False), "g": BRef("nn", ("z",))}),
                      Inst("i2", nleaf, {"n": Anon((("z", Sig("t")), ("y", Idx(Sig("wide"), 0)), ("b", Bun("pb" if s1 % 2 else "bb"))))}),
                      # observability probes for the internal bundles
                      Inst("p0", R(), {"p": Idx(BRef("bb", ("x",)), 0), "n": Sig("t")}),
                      Inst("p1", R(), {"p": Idx(BRef("nn", ("b", "x")), -1), "n": BRef("nn", ("b", "y"))}),
                      Inst("p2", R(), {"p": BRef("nn", ("y",)), "n": Sig("t")})])


@harness("C01", also=("C06", "C11"), args="s0: int, s1: int, w: int", pre=["0 <= s0 <= 5", "0 <= s1 <= 6", "1 <= w"],
         tiers={"quick": {"timeout": 170, "pre": ["w <= 2"], "parts": parts_over("s0", range(6))},
                "thorough": {"timeout": 1200, "pre": ["w <= 3"], "parts": parts_product(parts_over("s0", range(6)), parts_over("s1", range(7)))}},
         sample=(3, 6, 2),
         bounds="two instances of a module with a bundle-valued port; each connected to: internal bundle instance, bundle port of the parent, reference into a nested bundle, anonymous bundles of signals / slices / bundle references, port reference to the other instance's bundle port; the nested bundle has a scalar named like a scalar of its sub-bundle; leaf width w<=2 (quick) / <=3",
         generalises="leaf width; connection selectors", outside="deeper bundle nesting (see C10)")
def bundles(s0, s1, w):
    return dc.run(_t3(s0, s1, w))


# ------------------------------------------------------------------ T4 instance arrays
def _t4(n, w, ma, mg):
    leaf = Mod("Leaf", ports=[("a", w), ("g", 1)], insts=[
        Inst("u", Ext("Cell", [("a", w), ("b", 1)]), {"a": Sig("a"), "b": Sig("g")})])
    if ma == 0: ea = Sig("s")                              # broadcast
    elif ma == 1: ea = Sig("big")                          # per element
    elif ma == 2: ea = Cat((Sig("s"), Slc(Sig("big"), 0, (n - 1) * w)))   # per element, through a concat
    else: ea = Slc(Sig("huge"), w, (n + 1) * w)            # per element, through a slice
    if mg == 0: eg = Sig("t")
    elif mg == 1: eg = Sig("tn")
    else: eg = Slc(Sig("big"), 0, n)
    return Mod("Top", ports=[("s", w), ("big", n * w), ("huge", (n + 2) * w), ("t", 1), ("tn", n)],
               insts=[Inst("arr", leaf, {"a": ea, "g": eg}, kind="array", n=n)])


@harness("C01", also=("C06", "C11"), args="n: int, w: int, ma: int, mg: int", pre=["2 <= n", "1 <= w", "0 <= ma <= 3", "0 <= mg <= 2"],
         tiers={"quick": {"timeout": 170, "pre": ["n <= 3", "w <= 2"], "parts": parts_product(parts_over("ma", range(4)), parts_over("n", (2, 3)))},
                "thorough": {"timeout": 1200, "pre": ["n <= 4", "w <= 3"], "parts": parts_product(parts_over("ma", range(4)), parts_over("mg", range(3)), parts_over("n", (2, 3, 4)))}},
         sample=(3, 2, 2, 1),
         bounds="array of n<=3 (quick) / <=4 instances; bus port width w<=2 / <=3 and a scalar port; each connected by broadcast or per element through a signal, a concatenation or a slice",
         generalises="array size n, port width w (per-element index arithmetic k*w:(k+1)*w)", outside="arrays of arrays; bundle-valued array ports (see pairs)")
def arrays(n, w, ma, mg):
    if env.realize(ma == 2 and n * w == w):
        return True
    return dc.run(_t4(n, w, ma, mg))


# ------------------------------------------------------------------ T5 instance pairs
def _t5(sq, sg, r):
    cellm = Mod("PCell", ports=[("q", 1), ("g", 1)], insts=[Inst("r", R(r), {"p": Sig("q"), "n": Sig("g")})])
    if sq == 0: eq = Bun("d")
    elif sq == 1: eq = Anon((("p", BRef("d", ("n",))), ("n", BRef("d", ("p",)))))
    elif sq == 2: eq = Sig("v")
    elif sq == 3: eq = Anon((("n", Idx(Sig("two"), 1)), ("p", Sig("v"))))   # (members written in the other order than the bundle declares them)
    else: eq = Bun("dp")
    if sg == 0: eg = Sig("v")
    elif sg == 1: eg = Bun("d")
    else: eg = Anon((("n", Idx(Sig("two"), 1)), ("p", Idx(Sig("two"), 0))))
    return Mod("Top", ports=[("v", 1), ("two", 2)], buns=[("d", DIFF, False), ("dp", DIFF, True)],
               insts=[Inst("pr", cellm, {"q": eq, "g": eg}, kind="pair"),
                      Inst("p0", R(), {"p": BRef("d", ("p",)), "n": Sig("v")})])


@harness("C01", also=("C06", "C11"), args="sq: int, sg: int, r: int", pre=["0 <= sq <= 4", "0 <= sg <= 2", "1 <= r <= 2"],
         tiers={"quick": {"timeout": 150, "parts": parts_over("sq", range(5))},
                "thorough": {"timeout": 600, "parts": parts_product(parts_over("sq", range(5)), parts_over("sg", range(3)))}},
         sample=(1, 2, 1),
         bounds="Pair of a two-port cell; each port connected to the Diff bundle (internal or port), a swapped anonymous bundle, a scalar (shared), an anonymous bundle of signal bits",
         generalises="connection selectors; device parameter", outside="instance bundles other than Pair")
def pairs(sq, sg, r):
    return dc.run(_t5(sq, sg, r))


# ------------------------------------------------------------------ T6 hierarchy
def _t6(w, k, share, deep, thru):
    leaf = Mod("Leaf", ports=[("a", w), ("g", 1)], sigs=[("m", 1)], insts=[
        Inst("r0", R(1), {"p": Idx(Sig("a"), k), "n": Sig("m")}),
        Inst("r1", R(2), {"p": Sig("m"), "n": Sig("g")})])
    leaf2 = leaf if share else Mod("Leaf2", ports=[("a", w), ("g", 1)], insts=[
        Inst("u", Ext("Cell", [("a", w), ("b", 1)]), {"a": Sig("a"), "b": Sig("g")})])
    mid = Mod("Mid", ports=[("a", w), ("g", 1)], sigs=[("kk", w)], insts=[
        Inst("l0", leaf, {"a": Sig("a"), "g": Sig("g")}),
        Inst("l1", leaf2, {"a": Sig("kk"), "g": Idx(Sig("a"), 0)}),
        Inst("l2", leaf, {"a": PRef("l1", "a"), "g": Sig("g") if thru else Idx(Sig("kk"), -1)})])
    top_insts = [Inst("m0", mid, {"a": Sig("s"), "g": Sig("t")}),
                 Inst("m1", mid, {"a": Sig("s"), "g": PRef("m0", "g")}),
                 Inst("lx", leaf2, {"a": Sig("s"), "g": Sig("t")})]
    mod = Mod("Top" if not deep else "Upper", ports=[("t", 1)], sigs=[("s", w)], insts=top_insts)
    if deep:
        mod = Mod("Top", ports=[("t", 1), ("u", 1)], insts=[
            Inst("x0", mod, {"t": Sig("t")}), Inst("x1", mod, {"t": Sig("u")}), Inst("x2", leaf, {"a": Cat(tuple([Sig("t")] * 1 + [Sig("u")] * 0)) if False else Open, "g": Sig("u")})][:2])
    return mod


@harness("C01", also=("C06", "C11"), args="w: int, k: int, share: bool, deep: bool, thru: bool", pre=["1 <= w", "-w <= k < w"],
         tiers={"quick": {"timeout": 170, "pre": ["w <= 2"], "parts": [("d0s0", "deep == False and share == False"), ("d0s1", "deep == False and share == True"),
                                                                       ("d1s0", "deep == True and share == False and thru == True"), ("d1s1", "deep == True and share == True and thru == False")]},
                "thorough": {"timeout": 1200, "pre": ["w <= 4"], "parts": parts_product([("d0", "deep == False"), ("d1", "deep == True")], parts_over("w", range(1, 5)))}},
         sample=(2, -1, True, True, False),
         bounds="hierarchy depth 2-3, leaf module shared between parents or not, internal nets at every level, ports passed through, a port reference at mid level; width w<=2 / <=4",
         generalises="bus width, bit index", outside="deeper hierarchies")
def hier(w, k, share, deep, thru):
    return dc.run(_t6(w, k, share, deep, thru))


def _t8(w):
    """two internal bundle instances of ONE type, each on one bundle port of the same child (and of a second child, swapped)"""
    B = BundleDef("B", [("x", w), ("y", 1)])
    cell = Ext("Cell", [("a", w), ("b", 1)])
    two = Mod("TwoB", ports=[("g", 1)], buns=[("p", B, True), ("q", B, True)], insts=[
        Inst("u", cell, {"a": BRef("p", ("x",)), "b": BRef("q", ("y",))}),
        Inst("v", cell, {"a": BRef("q", ("x",)), "b": BRef("p", ("y",))})])
    return Mod("Top", ports=[("t", 1)], buns=[("ba", B, False), ("bb", B, False), ("bc", B, False)], insts=[
        Inst("i", two, {"p": Bun("ba"), "q": Bun("bb"), "g": Sig("t")}),
        Inst("j", two, {"p": Bun("bb"), "q": Bun("bc"), "g": BRef("ba", ("y",))})])


# ------------------------------------------------------------------ T7 construction styles
@harness("C01", also=("C06", "C11"), args="style: int, which: int, w: int", pre=["0 <= style <= 6", "0 <= which <= 5", "1 <= w <= 2"],
         tiers={"quick": {"timeout": 170, "parts": parts_over("style", range(7))},
                "thorough": {"timeout": 600, "parts": parts_product(parts_over("style", range(7)), parts_over("which", range(6)))}},
         sample=(1, 0, 2),
         bounds="procedural (connect()), procedural (attribute assignment), class-body with call syntax, inside a generator, anonymous bundles in dict shorthand, every bundle instance flipped, bundle instances made as copies (n * B(), flipped(flipped(b))) - each on 6 mixed designs (slices+port refs, bundles, two bundles of one type on two ports, arrays, hierarchy); w<=2",
         generalises="width; style/design selectors", outside="")
def styles(style, which, w):
    if which == 0:
        top = _t2(2, 0, 7, 4, 7, w)
    elif which == 1:
        top = _t3(3, 6, w)
    elif which == 2:
        top = _t4(2, w, 1, 1)
    elif which == 3:
        top = _t6(w, 0, True, False, True)
    elif which == 4:
        top = _t3(4, 5, w)
    else:
        top = _t8(w)
    st = ("proc", "proc", "class", "gen", "proc", "proc", "proc")[style]
    return dc.run(top, style=st, setattr_conns=(style == 1), dict_anon=(style == 4), flip=(style == 5), copies=(style == 6))
