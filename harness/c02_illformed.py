"""C02: single-fault mutations of a valid hierarchical design never yield a package.
A fault planter (symbolic fault class x location x delta x widths) mutates the DSL description; the
independent validity predicate vlib.dsl.ref_valid decides whether the mutated design really is
ill-formed (a width delta that lands on n*w is valid broadcasting: filtered by the oracle, not by
the harness author).  Post: elaborate, to_proto and netlist each raise - also when the failed call is repeated (3 attempts on the same objects)."""
import io
from vlib import env
from vlib.spec import harness, parts_over, parts_product
from vlib.dsl import *
from vlib.build import build
import hdl21 as h

NFAULT = 22


def base(w, n):
    """a valid design: Top -> Mid -> leaves; bundle port, array, pair, port reference, no-connect"""
    cell = Ext("Cell", [("a", w), ("b", 1)])
    B = BundleDef("B", [("x", w), ("y", 1)])
    bleaf = Mod("BLeaf", ports=[("g", 1)], buns=[("b", B, True)], insts=[
        Inst("u", cell, {"a": BRef("b", ("x",)), "b": BRef("b", ("y",))}),
        Inst("r", Prim("R", dict(r=1)), {"p": Sig("g"), "n": BRef("b", ("y",))})])
    pcell = Mod("PCell", ports=[("q", 1), ("g", 1)], insts=[Inst("r", Prim("R", dict(r=1)), {"p": Sig("q"), "n": Sig("g")})])
    mid = Mod("Mid", ports=[("a", w), ("g", 1)], sigs=[("k", w), ("big", n * w)], buns=[("bb", B, False), ("d", DIFF, False)], insts=[
        Inst("l0", cell, {"a": Sig("a"), "b": Sig("g")}),
        Inst("l1", cell, {"a": Sig("k"), "b": NC(0)}),
        Inst("l2", cell, {"a": PRef("l1", "a"), "b": Sig("g")}),
        Inst("bl", bleaf, {"b": Anon((("x", Sig("k")), ("y", Sig("g")))), "g": Sig("g")}),
        Inst("b2", bleaf, {"b": Bun("bb"), "g": BRef("bb", ("y",))}),
        Inst("arr", cell, {"a": Sig("big"), "b": Sig("g")}, kind="array", n=n),
        Inst("pr", pcell, {"q": Bun("d"), "g": Sig("g")}, kind="pair")])
    top = Mod("Top", ports=[("s", w), ("t", 1)], sigs=[("k", w), ("big", n * w)], buns=[("bb", B, False), ("d", DIFF, False)], insts=[
        Inst("m0", mid, {"a": Sig("s"), "g": Sig("t")}),
        Inst("l", cell, {"a": Sig("s"), "b": Sig("t")})])
    return top, mid, cell, bleaf, pcell, B


def plant(fault, level, delta, w, n):
    top, mid, cell, bleaf, pcell, B = base(w, n)
    m = top if level == 0 else mid          # both declare: k[w], big[n*w], bb, d, and a scalar g/t
    g = Sig("t") if level == 0 else Sig("g")
    bus = Sig("s") if level == 0 else Sig("a")
    wd = w + delta
    add = m.insts.append
    if fault == 0:    # direct width mismatch (signal)
        m.sigs.append(("wrong", wd)); add(Inst("bad", cell, {"a": Sig("wrong"), "b": g}))
    elif fault == 1:  # width mismatch via a slice
        add(Inst("bad", cell, {"a": Slc(Sig("big"), 0, wd), "b": g}))
    elif fault == 2:  # via a concatenation
        add(Inst("bad", cell, {"a": Cat((Sig("k"), Slc(Sig("big"), 0, delta))) if delta > 0 else Cat((Sig("k"), g))[0 if False else slice(None)] if False else Cat((Sig("k"),) + ((g,) if delta < 0 else (Slc(Sig("big"), 0, delta),))), "b": g}))
    elif fault == 3:  # anonymous-bundle member
        m.sigs.append(("wrong", wd)); add(Inst("bad", bleaf, {"b": Anon((("x", Sig("wrong")), ("y", g))), "g": g}))
    elif fault == 4:  # bundle of another type on a bundle port
        B2 = BundleDef("B2", [("x", wd), ("y", 1)])
        m.buns.append(("b2x", B2, False)); add(Inst("bad", bleaf, {"b": Bun("b2x"), "g": g}))
    elif fault == 5:  # through a port reference
        other = Ext("Wide", [("a", wd), ("b", 1)])
        add(Inst("src", other, {"a": Open, "b": g})); add(Inst("bad", cell, {"a": PRef("src", "a"), "b": g}))
    elif fault == 6:  # array: neither w nor n*w (delta > 0: slightly more than n*w; delta < 0: slightly less than w)
        m.sigs.append(("wrong", n * w + delta if delta > 0 else wd)); add(Inst("bad", cell, {"a": Sig("wrong"), "b": g}, kind="array", n=n))
    elif fault == 7:  # missing connection
        add(Inst("bad", cell, {"a": bus}))
    elif fault == 8:  # extra connection
        if delta > 0 and w >= 2:
            add(Inst("bad", cell, {"a": bus, "b": g, "zz": g}))
        elif delta > 0:  # ... on an instance of a module that has no ports at all
            noports = Mod("NoPorts", sigs=[("q", 1)], insts=[Inst("r", Prim("R", dict(r=3)), {"p": Sig("q"), "n": Sig("q")})])
            add(Inst("bad", noports, {"zz": g}))
        else:  # ... as a member of an anonymous bundle which the bundle port does not have
            add(Inst("bad", bleaf, {"b": Anon((("x", Sig("k")), ("y", g), ("zz", g))), "g": g}))
    elif fault == 9:  # reference to a missing port
        add(Inst("bad", cell, {"a": bus, "b": PRef("l" if level == 0 else "l0", "zz")}))
    elif fault == 10:  # reference to a missing bundle member
        add(Inst("bad", cell, {"a": bus, "b": BRef("bb", ("nope",))}))
    elif fault == 11:  # out-of-range index
        add(Inst("bad", cell, {"a": bus, "b": Idx(Sig("k"), w + abs(delta) - 1 if delta > 0 else -w - abs(delta))}))
    elif fault == 12:  # slice with a bound beyond [-w, w] (of fitting width) or empty
        if delta > 0 and w >= 2:
            add(Inst("bad", cell, {"a": bus, "b": Slc(Sig("big"), n * w + abs(delta) - 1, n * w + abs(delta))}))
        elif w >= 2:  # an empty slice hidden in a concatenation whose other parts make up the port width
            add(Inst("bad", cell, {"a": Cat((Sig("k"), Slc(Sig("big"), 2, 2))), "b": g}))
        else:
            add(Inst("bad", cell, {"a": bus, "b": Slc(Sig("k"), 1, 1)}))
    elif fault == 13:  # orphan signal (no owner / other owner)
        add(Inst("bad", cell, {"a": Orphan((0 if w == 1 else 1) if delta > 0 else 2, w), "b": g}))
    elif fault == 14:  # orphan inside a concatenation / anonymous bundle
        if delta > 0 and w >= 2:  # the foreign signal is the LAST part of a concatenation that stays a concatenation
            add(Inst("bad", cell, {"a": Cat((Slc(Sig("k"), 0, w - 1), Orphan(0, 1))), "b": g}))
        elif delta > 0:
            add(Inst("bad", cell, {"a": bus, "b": Slc(Cat((g, Orphan(0, 1), g)), 1, 2)}))
        else:
            add(Inst("bad", bleaf, {"b": Anon((("x", Sig("k")), ("y", Orphan(1, 1)))), "g": g}))
    elif fault == 15:  # no-connect that is also referenced
        if delta > 0 and w >= 2:  # directly
            add(Inst("src", cell, {"a": bus, "b": NC(7)})); add(Inst("bad", cell, {"a": bus, "b": PRef("src", "b")}))
        elif w >= 2:   # through a slice of the reference, inside a concatenation
            add(Inst("src", cell, {"a": NC(7), "b": g})); add(Inst("bad", cell, {"a": Cat((Slc(PRef("src", "a"), 1, w), Idx(Sig("k"), 0))), "b": g}))
        else:          # as a member of an anonymous bundle
            add(Inst("src", cell, {"a": bus, "b": NC(7)})); add(Inst("bad", bleaf, {"b": Anon((("x", Sig("k")), ("y", PRef("src", "b")))), "g": g}))
    elif fault == 16:  # pair: shared scalar of the wrong width
        m.sigs.append(("wrong", wd)); add(Inst("bad", pcell, {"q": Sig("wrong"), "g": g}, kind="pair"))
    elif fault == 17:  # instantiation cycle
        (mid if level == 1 else bleaf).insts.append(Inst("loop", top if level == 0 else mid, {"s": Open, "t": Open} if level == 0 else {"a": Open, "g": Open}))
    elif fault == 18:  # unnamed module
        (m if level == 1 else bleaf).name = None
    elif fault == 19:  # two distinct modules under one name
        # delta > 0: the clashing module carries the name of the module that instantiates it (ancestor / descendant)
        clash = Mod(("Top" if level == 0 else "Mid") if delta > 0 else ("Mid" if level == 0 else "BLeaf"), ports=[("q", 1)], insts=[Inst("r", Prim("R", dict(r=2)), {"p": Sig("q"), "n": Sig("q")})])
        add(Inst("bad", clash, {"q": g}))
    elif fault == 20:  # pair: bundle member missing / scalar-vs-bundle mismatch
        add(Inst("bad", pcell, {"q": Bun("bb"), "g": g}, kind="pair"))
    elif delta > 0:   # array with a missing port connection
        add(Inst("bad", cell, {"a": Sig("big")}, kind="array", n=n))
    else:             # array with a connection to a port its target does not have
        add(Inst("bad", cell, {"a": Sig("big"), "b": g, "zz": g}, kind="array", n=n))
    return top


APIS = ("elaborate", "to_proto", "netlist")
WHY = {}


RETRIES = 3


def _accepts(top_dsl, api):
    """True iff the real code returns normally for this design through `api` - at the first call or
    when the very same (failed) call is repeated on the same objects: 'they never return a package'"""
    env.reset_all()
    try:
        m = build(top_dsl)
    except Exception:
        return False
    for attempt in range(RETRIES):
        try:
            if api == "elaborate":
                h.elaborate(m)
            elif api == "to_proto":
                h.to_proto(m)
            else:
                h.netlist(m, io.StringIO(), fmt="spice")
        except Exception:
            continue
        return True
    return False


def _run(fault, level, delta, w, n):
    top = plant(fault, level, delta, w, n)
    tc = env.deep_realize(top)
    with env.notrace():
        invalid = not ref_valid(tc)
    if not invalid:
        return True  # the mutation happens to be well formed (e.g. width lands on n*w): not this property's subject
    for api in APIS:
        if api == "elaborate" and fault == 19:
            continue  # a name clash exists only in the export name space; elaborate() returns in-memory Modules
        if _accepts(top, api):
            WHY["why"] = f"{api} accepted an ill-formed design"
            env.reached()
            return False
    env.reached()
    return True


@harness("C02", args="fault: int, level: int, delta: int, w: int, n: int",
         pre=[f"0 <= fault < {NFAULT}", "0 <= level <= 1", "delta != 0 and -2 <= delta <= 2", "1 <= w", "2 <= n <= 3", "w + delta >= 1"],
         tiers={"quick": {"timeout": 170, "pre": ["w <= 2", "n == 2", "-1 <= delta <= 1"], "parts": parts_over("fault", range(NFAULT))},
                "thorough": {"timeout": 1500, "pre": ["w <= 3"], "parts": parts_product(parts_over("fault", range(NFAULT)), parts_over("level", (0, 1)))}},
         sample=(3, 1, 1, 2, 2),
         bounds=f"{NFAULT} fault classes (width mismatch direct / slice / concat / anonymous-bundle member / bundle type / port reference / array; missing, extra connection; missing port, missing bundle member; out-of-range index, out-of-range or empty slice; orphan signals (none / other owner, direct / in concat / in anonymous bundle); no-connect referenced; pair scalar width; instantiation cycle; unnamed module; name clash; pair member mismatch; array with a missing port) x location (top / one level down) x delta in +-1 (quick) / +-2 x width w<=2 / <=3 x array size 2..3",
         generalises="width, delta, array size (which mutations are really ill-formed is decided by the oracle); fault class / location selectors",
         outside="multi-fault designs; faults deeper than one level; wider buses")
def illformed_rejected(fault, level, delta, w, n):
    return _run(fault, level, delta, w, n)


@harness("C02", args="w: int, n: int", pre=["1 <= w <= 3", "2 <= n <= 3"],
         tiers={"quick": {"timeout": 170, "pre": ["w <= 2", "n == 2"]}, "thorough": {"timeout": 600}}, sample=(2, 2),
         bounds="the un-mutated base design itself (sanity: it must be accepted, otherwise every mutation is 'rejected' vacuously)",
         generalises="width, array size")
def base_accepted(w, n):
    top = base(w, n)[0]
    tc = env.deep_realize(top)
    with env.notrace():
        v = ref_valid(tc)
    ok = _accepts(top, "to_proto") and _accepts(top, "netlist") and _accepts(top, "elaborate")
    env.reached()
    return v and ok


@harness("C06", args="fault: int, level: int, delta: int, w: int", pre=[f"0 <= fault < {NFAULT}", "0 <= level <= 1", "delta != 0 and -1 <= delta <= 1", "1 <= w <= 2", "w + delta >= 1"],
         tiers={"quick": {"timeout": 170, "pre": ["w == 2"], "parts": [(f"f{a}", f"{a} <= fault < {a + 4}") for a in range(0, NFAULT, 4)]},
                "thorough": {"timeout": 600, "parts": parts_over("fault", range(NFAULT))}},
         sample=(14, 0, 1, 2),
         bounds="C06 on the fault planter's designs: whenever to_proto RETURNS for a mutated design (it should not: C02), the returned package must still be closed and self-consistent",
         generalises="fault class / location / delta / width", outside="")
def mutated_designs_closed(fault, level, delta, w):
    from vlib.pkgread import check_package
    top = plant(fault, level, delta, w, 2)
    env.reset_all()
    try:
        pkg = h.to_proto(build(top))
    except Exception:
        env.reached()
        return True
    env.reached()
    with env.notrace():
        probs = check_package(pkg)
        WHY["why"] = "; ".join(probs[:3])
        return not probs
