"""C12: output is reproducible across processes.  Environment nondeterminism is made a symbolic input:
every set the connectable classes create iterates in an order drawn from a symbolic choice vector
(vlib/nondet.py).  Post: serialized package and spice / spectre / verilog netlists equal those of the
canonical order.  The replay additionally runs the design program in real sub-processes under different
PYTHONHASHSEED values and reports a violation only if two real runs differ byte-wise."""
import io
import os
import sys
import hashlib
import subprocess
from vlib import env
from vlib.spec import harness, parts_over, parts_product
import hdl21 as h
from vlib import nondet
from vlib.dsl import *
from vlib.build import build

NDES = 10


def design(sel, w):
    B = BundleDef("B", [("x", w), ("y", 1)])
    N = BundleDef("N", [("z", 1)], [("b", B), ("c", B)])
    cell = Ext("Cell", [("a", w), ("b", 1)])
    two = Mod("TwoB", ports=[("g", 1)], buns=[("p", B, True), ("q", B, True)], insts=[
        Inst("u", cell, {"a": BRef("p", ("x",)), "b": BRef("q", ("y",))}),
        Inst("v", cell, {"a": BRef("q", ("x",)), "b": BRef("p", ("y",))})])
    three = Mod("Three", ports=[("a", w), ("b", w), ("c", w), ("g", 1)], insts=[
        Inst("u", cell, {"a": Sig("a"), "b": Sig("g")}), Inst("v", cell, {"a": Sig("b"), "b": Sig("g")}),
        Inst("w", cell, {"a": Sig("c"), "b": Sig("g")})])
    if sel == 0:   # one bundle instance on two ports of one instance (replace_bundle_inst)
        insts = [Inst("i", two, {"p": Bun("bb"), "q": Bun("bb"), "g": Sig("t")})]
    elif sel == 1:  # a reference to a sub-bundle on two ports (resolve_bundleref)
        insts = [Inst("i", two, {"p": BRef("nn", ("b",)), "q": BRef("nn", ("b",)), "g": BRef("nn", ("z",))})]
    elif sel == 2:  # one port reference feeding several ports (update_ref_deps / follow)
        insts = [Inst("src", three, {"a": Open, "b": Sig("s"), "c": Sig("s"), "g": Sig("t")}),
                 Inst("i", three, {"a": PRef("src", "a"), "b": PRef("src", "a"), "c": PRef("src", "a"), "g": Sig("t")})]
    elif sel == 3:  # port-reference fan over several instances, no explicit signal
        insts = [Inst("src", three, {"a": Open, "b": Open, "c": Sig("s"), "g": Sig("t")}),
                 Inst("i", three, {"a": PRef("src", "a"), "b": PRef("src", "b"), "c": PRef("src", "a"), "g": Sig("t")}),
                 Inst("j", three, {"a": PRef("src", "b"), "b": PRef("src", "a"), "c": PRef("i", "c"), "g": Sig("t")})]
    elif sel == 4:  # bundle on two ports of two instances + anonymous bundles
        insts = [Inst("i", two, {"p": Bun("bb"), "q": Anon((("x", Sig("s")), ("y", Sig("t")))), "g": Sig("t")}),
                 Inst("j", two, {"p": Bun("bb"), "q": Bun("bb"), "g": Sig("t")})]
    elif sel == 5:  # slices and concats of one port reference on several ports
        insts = [Inst("src", three, {"a": Open, "b": Sig("s"), "c": Sig("s"), "g": Sig("t")}),
                 Inst("i", three, {"a": Slc(PRef("src", "a"), 0, w), "b": Cat((PRef("src", "a"),)), "c": PRef("src", "a"), "g": Sig("t")})]
    elif sel == 6:  # two sub-bundles of one nested bundle on swapped ports + whole nested references
        insts = [Inst("i", two, {"p": BRef("nn", ("b",)), "q": BRef("nn", ("c",)), "g": BRef("nn", ("z",))}),
                 Inst("j", two, {"p": BRef("nn", ("c",)), "q": BRef("nn", ("b",)), "g": Sig("t")})]
    elif sel == 9:  # several anonymous bundles on the ports of one instance (and of a second one, swapped)
        insts = [Inst("i", two, {"p": Anon((("x", Sig("s")), ("y", Sig("t")))), "q": Anon((("x", BRef("bb", ("x",))), ("y", Sig("t")))), "g": Sig("t")}),
                 Inst("j", two, {"q": Anon((("x", Sig("s")), ("y", BRef("bb", ("y",))))), "p": Anon((("y", Sig("t")), ("x", Sig("s")))), "g": Sig("t")})]
    elif sel == 8:  # a loop made of port references only (no signal, no open port): the alphabetically first instance has two ports in it
        insts = [Inst("i", three, {"a": PRef("j", "a"), "b": PRef("i", "a"), "c": Sig("s"), "g": Sig("t")}),
                 Inst("j", three, {"a": PRef("i", "b"), "b": Sig("s"), "c": Sig("s"), "g": Sig("t")})]
    else:           # shared no-connects and named no-connects on several ports
        insts = [Inst("i", three, {"a": NC(0), "b": NC(0), "c": NC(1, "n1"), "g": Sig("t")}),
                 Inst("j", three, {"a": NC(1, "n1"), "b": Sig("s"), "c": NC(0), "g": Sig("t")})]
    return Mod("Top", ports=[("t", 1), ("s", w)], buns=[("bb", B, False), ("nn", N, False)], insts=insts)


def outputs(sel, w):
    env.reset_all()
    m = build(design(sel, w))
    pkg = h.to_proto(m)
    with env.notrace():  # the package is a concrete protobuf message: serialise and netlist it untraced
        return _render(pkg)


def _render(pkg):
    out = [pkg.SerializeToString(deterministic=True)]
    for fmt in ("spice", "spectre", "verilog"):
        s = io.StringIO()
        try:
            h.netlist(pkg, s, fmt=fmt)
            out.append(s.getvalue())
        except RuntimeError as ex:  # e.g. verilog refuses undirected ports: the refusal itself must be reproducible
            out.append("refused: " + str(ex)[:200])
    return out


def digest(sel, w):
    hh = hashlib.sha256()
    for o in outputs(sel, w):
        hh.update(o if isinstance(o, bytes) else o.encode())
    return hh.hexdigest()


def real_processes_differ(sel, w, n=24):
    """the property's real observable: the same design program in fresh processes with different hash seeds"""
    seen = set()
    R = os.environ.get("VERIF_REPO", "/repo")
    for seed in range(n):
        e = dict(os.environ, PYTHONHASHSEED=str(seed + 1), VERIF_MODE="replay", PYTHONPATH=f"/verif:{R}")
        junk = "x=[object() for _ in range(%d)];" % (seed * 37 % 400)
        p = subprocess.run([sys.executable, "-c", junk + f"import harness.c12_determinism as H; print(H.digest({sel},{w}))"],
                           capture_output=True, text=True, env=e, cwd="/verif")
        seen.add(p.stdout.strip().splitlines()[-1] if p.stdout.strip() else "ERR " + p.stderr[-100:])
    return len(seen) > 1, seen


@harness("C12", args="sel: int, w: int, c0: int, c1: int, c2: int, c3: int, c4: int, c5: int",
         pre=[f"0 <= sel < {NDES}", "1 <= w <= 2"] + [f"0 <= c{k} <= 2" for k in range(6)],
         tiers={"quick": {"timeout": 170, "pre": ["w == 1", "c3 == 0 and c4 == 0 and c5 == 0"], "parts": parts_product(parts_over("sel", range(NDES)), parts_over("c0", range(3)))},
                "thorough": {"timeout": 1500, "parts": parts_product(parts_over("sel", range(NDES)), parts_over("c0", range(3)), parts_over("c1", range(3)))}},
         sample=(0, 1, 1, 0, 0, 0, 0, 0),
         bounds=f"{NDES} designs exercising every set-iterating rewriting site (one bundle / sub-bundle reference on several ports of one instance, port references feeding several ports, fans, a pure port-reference loop, anonymous bundles, slices and concats of references, shared and named no-connects); choice vector of 6 (quick: 3) ternary choices = every order of every set with up to 3 elements met in the first 6 (quick: 3) choice points",
         generalises="the iteration order of every set created by the connectable classes (symbolic choice vector)",
         outside="dict order (insertion ordered by the language); thread scheduling; sets with more than 3 elements; later iterations than the choice vector covers")
def order_independent(sel, w, c0, c1, c2, c3, c4, c5):
    nondet.install()
    try:
        sel, w = env.pick(sel, 0, NDES - 1), env.pick(w, 1, 2)
        nondet.set_choices([0] * 6)
        base = outputs(sel, w)  # (traced as well: module qualified names come from frame inspection, which tracing changes)
        nondet.set_choices([c0, c1, c2, c3, c4, c5])
        got = outputs(sel, w)
        env.reached()
        same = base == got
    finally:
        nondet.uninstall()
    if same or env.SYM:
        return same
    differ, seen = real_processes_differ(sel, w)
    WHY["seen"] = sorted(seen)
    return not differ


WHY = {}


GEN_PROG = r"""
import hdl21 as h, hashlib
from typing import FrozenSet, Optional, Tuple
@h.paramclass
class P:
    s = h.Param(dtype=FrozenSet[str], desc="set")
    t = h.Param(dtype=Optional[str], desc="t", default=None)
    i = h.Param(dtype=h.Instantiable, desc="unit", default_factory=h.primitives.Mos)
@h.paramclass
class Q:
    groups = h.Param(dtype=FrozenSet[FrozenSet[str]], desc="set of sets")
    nums = h.Param(dtype=FrozenSet[int], desc="ints", default=frozenset([3, 1, 2]))
    pairs = h.Param(dtype=FrozenSet[Tuple[str, int]], desc="tuples", default=frozenset([("b", 1), ("a", 2)]))
@h.generator
def G(p: P) -> h.Module:
    m = h.Module(); m.x = h.Port(); return m
@h.generator
def G2(q: Q) -> h.Module:
    m = h.Module(); m.x = h.Port(); return m
@h.module
class Top:
    a = h.Port()
    g0 = G(s=frozenset(["alpha", "beta", "gamma", "delta"]))(x=a)
    g1 = G(s=frozenset(["one"]), t="tee")(x=a)
    g2 = G2(groups=frozenset([frozenset(["vdd", "vddio"]), frozenset(["vss", "sub", "gnd"]), frozenset(["in"]), frozenset(["outp", "outn"])]))(x=a)
    r = h.generators.Series(unit=h.primitives.R(r=1), nser=3, conns=["p", "n"])(p=a, n=a)
    ms = h.generators.MosStack(nser=2)(d=a, g=a, s=a, b=a)   # (a unit with parallel ports next to the series pair)
print(hashlib.sha256(h.to_proto(Top).SerializeToString(deterministic=True)).hexdigest())
"""


@harness("C12", args="nseeds: int", concrete=True, sample=(12,),
         bounds="concrete seed (no symbolic input): a design with generator-made modules whose parameters include sets of strings, ints, tuples and sets, a string and a Module-valued field, exported in 12 real processes with different PYTHONHASHSEED: byte-identical packages (names of generated modules included)")
def generated_names_across_processes(nseeds):
    seen = set()
    R = os.environ.get("VERIF_REPO", "/repo")
    for seed in range(1, nseeds + 1):
        e = dict(os.environ, PYTHONHASHSEED=str(seed), PYTHONPATH=f"/verif:{R}")
        p = subprocess.run([sys.executable, "-c", GEN_PROG], capture_output=True, text=True, env=e)
        seen.add(p.stdout.strip() or "ERR " + p.stderr[-200:])
    env.reached()
    WHY["seen"] = sorted(seen)
    return len(seen) == 1 and not next(iter(seen)).startswith("ERR")


@harness("C12", args="nseeds: int", concrete=True, sample=(6,),
         bounds=f"concrete seed (no symbolic input): each of the {NDES} designs (w = 1, 2) run in real processes with 6 different PYTHONHASHSEED values and different amounts of prior allocation: identical digests of package + spice + spectre + verilog (covers address- and str-hash-dependent behaviour that the set-order model does not express)")
def designs_across_processes(nseeds):
    from concurrent.futures import ThreadPoolExecutor
    jobs = [(sel, w) for sel in range(NDES) for w in (1, 2)]
    with ThreadPoolExecutor(max_workers=int(os.environ.get("VERIF_JOBS", "8"))) as ex:
        res = list(ex.map(lambda j: real_processes_differ(j[0], j[1], n=nseeds), jobs))
    env.reached()
    bad = [(j, sorted(seen)[:3]) for j, (differ, seen) in zip(jobs, res) if differ or any(s.startswith("ERR") for s in seen)]
    WHY["seen"] = bad
    return not bad


EX_PROG = "import hashlib, harness.c06_closure as C; ran, pk = C.capture_examples(); print(ran, len(pk), hashlib.sha256(b'|'.join(p.SerializeToString(deterministic=True) for p in pk)).hexdigest())"


@harness("C12", args="nseeds: int", concrete=True, sample=(4,),
         bounds="concrete seed (no symbolic input): the repository's 7 example programs run in 4 real processes with different PYTHONHASHSEED values and different amounts of prior allocation: every package they export is byte-identical across the processes")
def examples_across_processes(nseeds):
    from concurrent.futures import ThreadPoolExecutor
    R = os.environ.get("VERIF_REPO", "/repo")

    def one(seed):
        e = dict(os.environ, PYTHONHASHSEED=str(seed), VERIF_MODE="replay", PYTHONPATH=f"/verif:{R}:{R}/pdks/Sky130:{R}/pdks/Gf180:{R}/pdks/Asap7")
        junk = "x=[object() for _ in range(%d)];" % (seed * 53 % 500)
        p = subprocess.run([sys.executable, "-c", junk + EX_PROG], capture_output=True, text=True, env=e, cwd="/verif")
        return p.stdout.strip().splitlines()[-1] if p.stdout.strip() else "ERR " + p.stderr[-200:]

    with ThreadPoolExecutor(max_workers=4) as ex:
        seen = set(ex.map(one, range(1, nseeds + 1)))
    env.reached()
    WHY["seen"] = sorted(seen)
    return len(seen) == 1 and next(iter(seen)).startswith("7 ")
