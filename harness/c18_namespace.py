"""C18: Module and Bundle namespaces stay coherent under any edit sequence.
k operations, each (op kind, name index, value kind) symbolic selectors; the coherence invariant is
asserted after every prefix; finally the edited module is exported and must contain exactly the
current objects.  Separate single-path harnesses for the documented rejections."""
from vlib import env
from vlib.spec import harness, parts_over, parts_product
import hdl21 as h
from hdl21.signal import Visibility

NAMES = ["a", "b", "c"]
E0 = None


def _e0():
    return h.ExternalModule(name="E0", port_list=[], paramtype=dict)({})


def _mkval(kind, created, B):
    if kind == 0:
        return h.Signal()
    if kind == 1:
        return h.Input()
    if kind == 2:
        return h.Instance(of=_e0())
    if kind == 3:
        return h.InstanceArray(of=_e0(), n=2)
    if kind == 4:
        return h.Pair(of=_e0())
    if kind == 5:
        return h.BundleInstance(of=B)
    return created[0] if created else h.Signal()  # 6: re-use of the first object created


def _coherent(m):
    views = [m.ports, m.signals, m.instances, m.instarrays, m.instbundles, m.bundles]
    total = 0
    for v in views:
        total += len(v)
        for name, obj in v.items():
            if m.namespace.get(name, None) is not obj:
                return False
    if total != len(m.namespace):
        return False
    for name, obj in m.namespace.items():
        if m.get(name) is not obj or getattr(m, name) is not obj:
            return False
        if obj.name != name or obj._parent_module is not m:
            return False
        n = 0
        for v in views:
            if name in v:
                n += 1
        if n != 1:
            return False
        if isinstance(obj, h.Signal):
            if (name in m.ports) != (obj.vis == Visibility.PORT):
                return False
    return True


def _apply(m, op, ni, val):
    name = NAMES[ni]
    if op == 0:
        setattr(m, name, val)
    elif op == 1:
        val.name = None
        m.add(val, name=name)
    else:
        val.name = name
        m.add(val)


def _expected_export(m):
    """names the package must contain for the current objects (documented flattening names)"""
    sigs, insts = set(), set()
    for n in list(m.ports) + list(m.signals):
        sigs.add(n)
    for n in m.bundles:
        sigs.add(n + "_x")
    for n in m.instances:
        insts.add(n)
    for n in m.instarrays:
        insts.update({n + "_0", n + "_1"})
    for n in m.instbundles:
        insts.update({n + "_p", n + "_n"})
    return sigs, insts


def _module_edits(k, ops):
    env.reset_all()
    B = h.Bundle(name="B")
    B.add(h.Signal(name="x"))
    m = h.Module(name="M")
    created = []
    for i in range(k):
        op, ni, kind = ops[i]
        val = _mkval(kind, created, B)
        created.append(val)
        try:
            _apply(m, op, ni, val)
        except Exception:
            return True  # a rejected edit (raising is allowed); the module must have stayed coherent up to here
        if not _coherent(m):
            env.reached()
            return False
    env.reached()
    sigs, insts = _expected_export(m)
    # flattening names must not collide for this comparison to be meaningful (collisions are C05's subject)
    if len(sigs) != len(m.ports) + len(m.signals) + len(m.bundles) or len(insts) != len(m.instances) + 2 * len(m.instarrays) + 2 * len(m.instbundles):
        return True
    pkg = h.to_proto(m)
    with env.notrace():
        pm = pkg.modules[-1]
        got_s = [s.name for s in pm.signals]
        got_i = [i.name for i in pm.instances]
        return sorted(got_s) == sorted(sigs) and sorted(got_i) == sorted(insts)


@harness("C18", args="o0: int, n0: int, k0: int, o1: int, n1: int, k1: int, o2: int, n2: int, k2: int",
         pre=["0 <= o0 <= 2", "0 <= n0 <= 1", "0 <= k0 <= 5", "0 <= o1 <= 2", "0 <= n1 <= 1", "0 <= k1 <= 6", "0 <= o2 <= 2", "0 <= n2 <= 2", "0 <= k2 <= 6"],
         tiers={"quick": {"timeout": 170, "pre": ["o2 == 0", "n2 <= 1"], "parts": parts_product(parts_over("k0", range(6)), parts_over("o0", range(3)))},
                "thorough": {"timeout": 1500, "parts": parts_product(parts_over("k0", range(6)), parts_over("o0", range(3)), parts_over("k1", range(7)))}},
         sample=(0, 0, 0, 0, 0, 2, 0, 0, 6),
         bounds="3 operations on a Module; op in {setattr, add(name=), add(own name)}; names from a 2-3 letter alphabet; values: signal, port, instance, array, pair, bundle instance, re-use of the first object; invariant after every prefix; final export compared with the current objects",
         generalises="operation / name / kind selectors (exhaustive path enumeration)", outside="longer histories; larger alphabets")
def module_edits(o0, n0, k0, o1, n1, k1, o2, n2, k2):
    P = env.pick
    ops = [(P(o0, 0, 2), P(n0, 0, 2), P(k0, 0, 6)), (P(o1, 0, 2), P(n1, 0, 2), P(k1, 0, 6)), (P(o2, 0, 2), P(n2, 0, 2), P(k2, 0, 6))]
    with env.notrace():  # all inputs are selectors and concrete from here on: the solver's role is exhaustive enumeration
        return _module_edits(3, ops)


def _bcoherent(b):
    views = [b.signals, b.bundles]
    total = 0
    for v in views:
        total += len(v)
        for name, obj in v.items():
            if b.namespace.get(name, None) is not obj:
                return False
    if total != len(b.namespace):
        return False
    for name, obj in b.namespace.items():
        if b.get(name) is not obj or getattr(b, name) is not obj:
            return False
        if obj.name != name or obj._parent_bundle is not b:
            return False
        if (name in b.signals) == (name in b.bundles):
            return False
    return True


@harness("C18", args="o0: int, n0: int, k0: int, o1: int, n1: int, k1: int, o2: int, n2: int, k2: int",
         pre=["0 <= o0 <= 2", "0 <= n0 <= 1", "0 <= k0 <= 1", "0 <= o1 <= 2", "0 <= n1 <= 1", "0 <= k1 <= 2", "0 <= o2 <= 2", "0 <= n2 <= 2", "0 <= k2 <= 2"],
         tiers={"quick": {"timeout": 170, "parts": parts_product(parts_over("k0", range(2)), parts_over("o0", range(3)))},
                "thorough": {"timeout": 900, "parts": parts_product(parts_over("k0", range(2)), parts_over("o0", range(3)), parts_over("k1", range(3)))}},
         sample=(0, 0, 0, 0, 0, 1, 0, 0, 2),
         bounds="3 operations on a Bundle; values: signal, bundle instance, re-use of the first object",
         generalises="operation / name / kind selectors", outside="longer histories; roles")
def bundle_edits(o0, n0, k0, o1, n1, k1, o2, n2, k2):
    P = env.pick
    o0, n0, k0, o1, n1, k1, o2, n2, k2 = P(o0, 0, 2), P(n0, 0, 2), P(k0, 0, 2), P(o1, 0, 2), P(n1, 0, 2), P(k1, 0, 2), P(o2, 0, 2), P(n2, 0, 2), P(k2, 0, 2)
    with env.notrace():
        return _bundle_edits(o0, n0, k0, o1, n1, k1, o2, n2, k2)


def _bundle_edits(o0, n0, k0, o1, n1, k1, o2, n2, k2):
    env.reset_all()
    Inner = h.Bundle(name="Inner")
    Inner.add(h.Signal(name="x"))
    b = h.Bundle(name="B")
    created = []
    for op, ni, kind in ((o0, n0, k0), (o1, n1, k1), (o2, n2, k2)):
        val = h.Signal() if kind == 0 else h.BundleInstance(of=Inner) if kind == 1 else (created[0] if created else h.Signal())
        created.append(val)
        name = NAMES[ni]
        try:
            if op == 0:
                setattr(b, name, val)
            elif op == 1:
                val.name = None
                b.add(val, name=name)
            else:
                val.name = name
                b.add(val)
        except Exception:
            return True
        if not _bcoherent(b):
            env.reached()
            return False
    env.reached()
    return True


def _raises(f, *exc):
    try:
        f()
    except exc or Exception:
        return True
    return False


@harness("C18", args="which: int", pre=["0 <= which <= 10"], tiers={"quick": {"timeout": 120}}, sample=(0,),
         bounds="documented rejections: reserved names, non-HDL values, attribute deletion, sub-classing, additions after elaboration (Module and Bundle); class-style definition equals the procedural one (Module: one fixed case here, see class_equals_procedural; Bundle: private names and reserved names)",
         generalises="selector only")
def rejections(which):
    which = env.pick(which, 0, 10)
    with env.notrace():
        return _rejections(which)


def _rejections(which):
    env.reset_all()
    m = h.Module(name="M")
    m.s = h.Signal()
    b = h.Bundle(name="B")
    b.x = h.Signal()
    env.reached()
    if which == 0:
        return all(_raises(lambda k=k: setattr(m, k, h.Signal())) for k in ("ports", "signals", "instances", "instarrays", "instbundles", "bundles", "namespace", "add", "get", "literals", "props"))
    if which == 1:
        return all(_raises(lambda v=v: setattr(m, "q", v), TypeError) for v in (5, "x", None, [h.Signal()], h.Module(name="X"), h.primitives.R, lambda: 0))
    if which == 2:
        return _raises(lambda: delattr(m, "s")) and m.get("s") is not None
    if which == 3:
        def sub():
            class Sub(h.Module):
                pass
        return _raises(sub)
    if which == 4:
        h.elaborate(m)
        return _raises(lambda: setattr(m, "late", h.Signal())) and _raises(lambda: m.add(h.Signal(name="late2"))) and m.get("late") is None
    if which == 5:
        return all(_raises(lambda v=v: setattr(b, "q", v), TypeError) for v in (5, "x", None, h.Module(name="X"), h.Instance(of=_e0())))
    if which == 6:
        def sub():
            class SubB(h.Bundle):
                pass
        return _raises(sub)
    if which == 7:
        # class-style definition equals the equivalent procedural one
        @h.module
        class Cls:
            i = h.Input(width=2)
            s = h.Signal()
            u = h.primitives.R(r=1)(p=s, n=i[0])
        P = h.Module(name="Cls")
        P.i = h.Input(width=2)
        P.s = h.Signal()
        P.u = h.primitives.R(r=1)(p=P.s, n=P.i[0])
        a, c = h.to_proto(Cls), h.to_proto(P)
        with env.notrace():
            a.modules[0].name = c.modules[0].name = "Cls"
            return a == c
    if which == 8:
        return _raises(lambda: m.add(h.Signal())) and _raises(lambda: m.add(h.Signal(name="x"), name="y"))
    if which == 10:
        # the @bundle class body equals the procedural definition: private (underscore) names are not members, reserved
        # names are refused on both paths
        Sub = h.Bundle(name="Sub")
        Sub.add(h.Signal(name="x"))
        Cls = h.bundle(type("Cls", (), {"a": h.Signal(width=2), "_tmp": h.Signal(), "i": h.BundleInstance(of=Sub), "_sub": h.BundleInstance(of=Sub)}))
        P = h.Bundle(name="Cls")
        P.a = h.Signal(width=2)
        P._tmp = h.Signal()
        P.i = h.BundleInstance(of=Sub)
        P._sub = h.BundleInstance(of=Sub)
        view = lambda bb: (sorted(bb.namespace), sorted(bb.signals), sorted(bb.bundles))
        if view(Cls) != view(P):
            WHY["why"] = f"class-style bundle {view(Cls)} != procedural {view(P)}"
            return False
        def cls_reserved():
            h.bundle(type("R", (), {"namespace": h.Signal()}))
        return _raises(cls_reserved) == _raises(lambda: setattr(P, "namespace", h.Signal()))
    return _raises(lambda: delattr(b, "x")) if hasattr(type(b), "__delattr__") and type(b).__delattr__ is not object.__delattr__ else True


def _class_vs_proc(binds, named):
    """the same attribute bindings written in a class body and procedurally: same names, same objects' kinds, same export"""
    env.reset_all()
    B = h.Bundle(name="B")
    B.add(h.Signal(name="x"))

    def values():
        created = []
        for k, (ni, kind) in enumerate(binds):
            v = _mkval(kind, created, B)
            if named and kind != 6 and not isinstance(v, h.Pair):
                v.name = "pre%d" % k  # the value already carries a name of its own when it is bound
            created.append(v)
        return created

    ns = {}
    for (ni, kind), v in zip(binds, values()):
        ns[NAMES[ni]] = v
    try:
        Cls = h.module(type("Cls", (), ns))
        cerr = None
    except Exception as e:
        Cls, cerr = None, type(e).__name__
    P = h.Module(name="Cls")
    perr = None
    nsp = {}
    for (ni, kind), v in zip(binds, values()):
        nsp[NAMES[ni]] = v
    try:
        # (what a class body hands over is its final name -> value table, in order of first binding)
        for name, v in nsp.items():
            setattr(P, name, v)
    except Exception as e:
        perr = type(e).__name__
    env.reached()
    if cerr or perr:
        return (cerr is None) == (perr is None)  # both styles reject, or neither
    if not _coherent(Cls) or not _coherent(P):
        return False
    view = lambda m: {n: type(o).__name__ for n, o in m.namespace.items()}
    if view(Cls) != view(P):
        WHY["why"] = f"class style holds {view(Cls)}, procedural {view(P)}"
        return False
    sigs, insts = _expected_export(P)
    if len(sigs) != len(P.ports) + len(P.signals) + len(P.bundles) or len(insts) != len(P.instances) + 2 * len(P.instarrays) + 2 * len(P.instbundles):
        return True
    a, c = h.to_proto(Cls), h.to_proto(P)
    with env.notrace():
        # (declaration ORDER may differ: re-binding a name keeps its place in a class body and moves it last procedurally)
        def canon(pkg):
            pm = pkg.modules[-1]
            return (sorted(str(x) for x in pm.signals), sorted(str(x) for x in pm.ports), sorted(str(x) for x in pm.instances),
                    sorted(str(x) for x in pkg.ext_modules), len(pkg.modules))
        return canon(a) == canon(c)


WHY = {}


@harness("C18", args="n0: int, k0: int, n1: int, k1: int, n2: int, k2: int, named: bool",
         pre=["0 <= n0 <= 2", "0 <= n1 <= 2", "0 <= n2 <= 2", "0 <= k0 <= 5", "0 <= k1 <= 6", "0 <= k2 <= 6"],
         tiers={"quick": {"timeout": 150, "parts": parts_over("k0", range(6))}}, sample=(0, 0, 1, 6, 0, 2, True),
         bounds="three attribute bindings (3 names x 7 value kinds incl. re-binding the first object under another name; values anonymous or already carrying a name of their own) written in a class body and as procedural assignments: same namespace, both coherent, identical export",
         generalises="selectors (solver-enumerated)", outside="")
def class_equals_procedural(n0, k0, n1, k1, n2, k2, named):
    P = env.pick
    binds = [(P(n0, 0, 2), P(k0, 0, 5)), (P(n1, 0, 2), P(k1, 0, 6)), (P(n2, 0, 2), P(k2, 0, 6))]
    named = bool(named)
    with env.notrace():
        return _class_vs_proc(binds, named)
