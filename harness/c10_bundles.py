"""C10: bundle ports flatten to the documented names, directions and visibility.
Symbolic: flips at every level (constructor flag and flipped()), leaf kinds, leaf widths, role of the
instance, port vs internal, fan-out.  Oracle: an independent recursive function (flip parity by XOR
along the path, role table, '_'-joined names); it does not call PortDir.flipped."""
from vlib import env
from vlib.spec import harness, parts_over, parts_product
import hdl21 as h
from hdl21.signal import PortDir, Visibility
from vlib.pkgread import check_package
from vlib.designcheck import roundtrip

KINDS = 7  # 0 input 1 output 2 inout 3 undirected port 4 role src=Host,dest=Device 5 role src=Device,dest=Host 6 plain
ROLES = h.RoleSet.from_names(["Host", "Device"])


def _leaf(kind, w, name):
    if kind == 0: return h.Input(name=name, width=w)
    if kind == 1: return h.Output(name=name, width=w)
    if kind == 2: return h.Inout(name=name, width=w)
    if kind == 3: return h.Port(name=name, width=w)
    if kind == 4: return h.Signal(name=name, width=w, src=ROLES.Host, dest=ROLES.Device)
    if kind == 5: return h.Signal(name=name, width=w, src=ROLES.Device, dest=ROLES.Host)
    return h.Signal(name=name, width=w)


def _expected_dir(kind, parity, role, depth):
    """documented rule. role: 0 none, 1 Host, 2 Device (of the bundle instance that directly holds the leaf)"""
    if kind == 0: return "OUTPUT" if parity else "INPUT"
    if kind == 1: return "INPUT" if parity else "OUTPUT"
    if kind == 2: return "INOUT"
    if kind in (4, 5):
        src = 1 if kind == 4 else 2
        dst = 2 if kind == 4 else 1
        if role == src: return "OUTPUT"
        if role == dst: return "INPUT"
        return "NONE"
    return "NONE"


def _bundles(ka, wa, kb, wb, kc, wc, f2, f3, fan, m2):
    L = h.Bundle(name="L")
    L.add(_leaf(kc, wc, "c"))
    M = h.Bundle(name="M")
    M.add(_leaf(kb, wb, "b"))
    # (with fan-out the sub-bundle instances are DECLARED as ports inside their bundle definitions: visibility of the
    #  flattened leaves is decided by the module-level instance alone)
    t0 = h.BundleInstance(name="t0", of=L, flipped=f3, port=bool(fan))
    M.add(t0)
    T = h.Bundle(name="T")
    T.roles = ROLES
    T.add(_leaf(ka, wa, "a"))
    if fan:
        # a DIRECT sub-bundle called `t0`, declared before `s0`, whose own definition holds another `t0`:
        # one member name at two levels (`bb.t0.c` is not `bb.s0.t0.c`)
        T.add(h.BundleInstance(name="t0", of=L))
    s0 = h.BundleInstance(name="s0", of=M, flipped=(f2 != m2), port=bool(fan))
    if m2:
        s0 = h.flipped(s0)  # flip through the function instead of the constructor flag
    T.add(s0)
    if fan:
        T.add(h.BundleInstance(name="s1", of=M))
    T._verif_M, T._verif_L = M, L
    return T


def _expected(ka, wa, kb, wb, kc, wc, f1, f2, f3, fan, role):
    """[(path tuple, width, direction)] for the port-instantiated bundle"""
    p1 = bool(f1)
    out = [(("a",), wa, _expected_dir(ka, p1, role, 1))]
    p2 = p1 != bool(f2)
    out.append((("s0", "b"), wb, _expected_dir(kb, p2, 0, 2)))
    out.append((("s0", "t0", "c"), wc, _expected_dir(kc, p2 != bool(f3), 0, 3)))
    if fan:
        out.append((("t0", "c"), wc, _expected_dir(kc, p1, 0, 2)))
        out.append((("s1", "b"), wb, _expected_dir(kb, p1, 0, 2)))
        out.append((("s1", "t0", "c"), wc, _expected_dir(kc, p1 != bool(f3), 0, 3)))
    return out


WHY = {}


def _run(ka, wa, kb, wb, kc, wc, f1, m1, f2, m2, f3, fan, role, is_port, via=False):
    env.reset_all()
    T = _bundles(ka, wa, kb, wb, kc, wc, f2, f3, fan, m2)
    r = None if role == 0 else (ROLES.Host if role == 1 else ROLES.Device)
    C = h.Module(name="C")
    bi = h.BundleInstance(name="bb", of=T, port=is_port, flipped=(f1 != m1), role=r)
    if m1:
        bi = h.flipped(bi)
    C.add(bi)
    # something inside C touches each leaf so that the flattened signals are used
    E = h.ExternalModule(name="E", port_list=[h.Port(name="x", width=wa), h.Port(name="y", width=wb), h.Port(name="z", width=wc)], paramtype=dict)
    C.u = E({})(x=C.bb.a, y=C.bb.s0.b, z=C.bb.s0.t0.c)
    if fan:
        E2 = h.ExternalModule(name="E2", port_list=[h.Port(name="z", width=wc)], paramtype=dict)
        C.u2 = E2({})(z=C.bb.t0.c)
    top = C
    if is_port:
        P = h.Module(name="P")
        if via:
            # the parent pairs the child's bundle port with an ANONYMOUS bundle: a signal for the leaf, and whole bundle
            # instances (named differently from the members they fill) for the sub-bundles
            P.pa = h.Signal(width=wa)
            P.ms = h.BundleInstance(of=T._verif_M)
            members = dict(a=P.pa, s0=P.ms)
            if fan:
                P.ms1 = h.BundleInstance(of=T._verif_M)
                members["s1"] = P.ms1
                P.mt0 = h.BundleInstance(of=T._verif_L)
                members["t0"] = P.mt0
            P.c = C(bb=h.AnonymousBundle(**members))
        else:
            P.pb = h.BundleInstance(of=T)
            P.c = C(bb=P.pb)
        top = P
    pkg = h.to_proto(top)
    via = bool(via)
    args = env.deep_realize((ka, wa, kb, wb, kc, wc, f1, f2, f3, fan, role, is_port))
    with env.notrace():
        env.COUNTS["reached"] += 1
        ka, wa, kb, wb, kc, wc, f1, f2, f3, fan, role, is_port = args
        exp = _expected(ka, wa, kb, wb, kc, wc, f1, f2, f3, fan, role)
        if check_package(pkg):
            WHY["why"] = "package not closed"
            return False
        import vlsir.circuit_pb2 as vckt
        pc = [m for m in pkg.modules if m.name.endswith("C")][0]
        sw = {s.name: s.width for s in pc.signals}
        ports = {p.signal: vckt.Port.Direction.Name(p.direction) for p in pc.ports}
        want_names = {"bb_" + "_".join(path): (w, d) for path, w, d in exp}
        # the references used inside C resolve to the members they name (`bb.s0.t0.c` is not `bb.t0.c`)
        uses = {("u", "x"): "bb_a", ("u", "y"): "bb_s0_b", ("u", "z"): "bb_s0_t0_c"}
        if fan:
            uses[("u2", "z")] = "bb_t0_c"
        for ci in pc.instances:
            for cc in ci.connections:
                wantsig = uses.get((ci.name, cc.portname))
                if wantsig is not None and (cc.target.WhichOneof("stype") != "sig" or cc.target.sig != wantsig):
                    WHY["why"] = f"{ci.name}.{cc.portname} is on {cc.target}, the reference names {wantsig}"
                    return False
        if is_port:
            got = {n: (sw.get(n), d) for n, d in ports.items()}
            if got != want_names:
                WHY["why"] = f"ports differ: want {want_names} got {got}"
                return False
            # connection pairing in the parent: flattened port <-> same member of the parent's bundle
            pp = [m for m in pkg.modules if m.name.endswith("P")][0]
            psw = {s.name: s.width for s in pp.signals}
            inst = pp.instances[0]
            conns = {c.portname: c.target for c in inst.connections}
            if set(conns) != set(want_names):
                WHY["why"] = f"instance connections {sorted(conns)} != ports {sorted(want_names)}"
                return False
            for path, w, d in exp:
                t = conns["bb_" + "_".join(path)]
                pname = "pb_" + "_".join(path)
                if via:  # a -> pa; s0.<...> -> ms_<...>; s1.<...> -> ms1_<...>
                    pname = "pa" if path == ("a",) else "_".join(({"s0": "ms", "s1": "ms1", "t0": "mt0"}[path[0]],) + path[1:])
                if t.WhichOneof("stype") != "sig" or t.sig != pname or psw.get(t.sig) != w:
                    WHY["why"] = f"member {path} paired with {t}"
                    return False
            if pp.ports:
                return False
        else:
            if ports:
                WHY["why"] = f"internal bundle instance produced ports {ports}"
                return False
            for n, (w, d) in want_names.items():
                if sw.get(n) != w:
                    WHY["why"] = f"missing internal signal {n}[{w}]: {sw}"
                    return False
        ok, why = roundtrip(pkg)
        WHY["why"] = why
        return ok


@harness("C10", also=("C11",),
         args="ka: int, wa: int, kb: int, wb: int, kc: int, wc: int, f1: bool, m1: bool, f2: bool, m2: bool, f3: bool, fan: bool, role: int, is_port: bool, via: bool",
         pre=[f"0 <= ka < {KINDS}", f"0 <= kb < {KINDS}", f"0 <= kc < {KINDS}", "1 <= wa", "1 <= wb", "1 <= wc", "0 <= role <= 2"],
         tiers={"quick": {"timeout": 170, "pre": ["wa <= 2 and wb == 1 and wc == 1", "kb == kc or kb == 0", "m1 == False or f1 == False", "m2 == False", "via == False or (is_port == True and f2 == False and f3 == False and m1 == False)"],
                          "parts": parts_product(parts_over("ka", range(KINDS)), [("port_r0", "is_port == True and role == 0"), ("port_r1", "is_port == True and role == 1"), ("port_r2", "is_port == True and role == 2"),
                                                                                   ("int", "is_port == False and role == 0 and f1 == False and f2 == False and f3 == False")])},
                "thorough": {"timeout": 600, "pre": ["wa <= 3 and wb <= 2 and wc <= 3", "via == False or is_port == True"],
                             "parts": parts_product(parts_over("ka", range(KINDS)), parts_over("kb", range(KINDS)), parts_over("kc", range(KINDS)),
                                                    [("port_r0", "is_port == True and role == 0"), ("port_r1", "is_port == True and role == 1"), ("port_r2", "is_port == True and role == 2"),
                                                     ("int", "is_port == False and role == 0")])}},
         sample=(4, 2, 0, 1, 1, 2, True, False, True, False, True, True, 1, True, True),
         bounds="bundle tree of depth 3 (leaf + sub-bundle per level), optional fan-out 2 at the top; 7 leaf kinds per level (input, output, inout, undirected port, 2 role-directed, plain); leaf widths <= 2 (quick) / <= 3; flips at all three levels by constructor flag and by flipped(); role of the port instance in {none, Host, Device}; port vs internal instantiation; parent connecting its own bundle, or an anonymous bundle of a signal and differently named whole bundle instances, to the child's bundle port",
         generalises="flip flags (parity), leaf kinds, widths, role", outside="deeper trees, fan-out 3; roles on nested sub-instances")
def bundle_ports(ka, wa, kb, wb, kc, wc, f1, m1, f2, m2, f3, fan, role, is_port, via):
    P = env.pick
    a = (P(ka, 0, KINDS - 1), P(wa, 1, 3), P(kb, 0, KINDS - 1), P(wb, 1, 3), P(kc, 0, KINDS - 1), P(wc, 1, 3),
         bool(f1), bool(m1), bool(f2), bool(m2), bool(f3), bool(fan), P(role, 0, 2), bool(is_port), bool(via))
    with env.notrace():  # flags, kinds and small widths: the solver's role is exhaustive enumeration of the box
        return _run(*a)
