"""C16: flatten() preserves leaf-level connectivity (or raises).
Hierarchy templates (depth <= 3, shared children, scalar and bus nets, internal nets at every level,
pass-through ports, primitive and external-module leaves) with designer names drawn from a candidate
set that contains the ':'-joined path names flatten() documents.  Post: only leaf instances, one per
leaf of the hierarchy, ports unchanged, leaf-level partition of flatten(m) == that of m; or it raised."""
from vlib import env
from vlib.spec import harness, parts_over, parts_product
import hdl21 as h
from vlib.dsl import *
from vlib.build import build
from vlib.pkgread import pkg_nets, check_package

SIGN = ["s", "k", "m0:kk", "m0:l0:m", "lx:m", "m0:g", "m1:kk", "x0:m0:kk"]      # candidate designer signal names
INSTN = ["lx", "m0:l0", "m0:l0:r0", "m1:rm", "m0:lq", "q"]
PORTN = ["pa", "m0:kk", "pa", "m1:l0:m", "pa", "m0:h", "pa", "pa"]                 # name of the top's bus port (by index of SIGN)
LEAFN = ["m0:rm", "rt", "rt", "m1:l2:r1", "rt", "m0:z:ra"]                         # names of a leaf placed directly in the top (by index of INSTN); index 1 stays clash-free so that the top's module instance `m0:l0` (of Leaf2: leaves u / rz) meets the nested path m0 -> l0 (of Leaf: leaves r0 / r1) with NO instance clash: only their internal nets `m` share the flat name `m0:l0:m`


def design(w, share, ext, deep, sn, inn, imid):
    leaf_ext = Ext("Cell", [("a", w), ("b", 1)])
    leaf = Mod("Leaf", ports=[("a", w), ("g", 1)], sigs=[("m", 1)], insts=[
        Inst("r0", Prim("R", dict(r=1)), {"p": Sig("g"), "n": Sig("m")}),
        Inst("r1", Prim("R", dict(r=2)), {"p": Sig("m"), "n": Sig("g")}),
        Inst("c0", leaf_ext, {"a": Sig("a"), "b": Sig("m")})][: 3 if ext else 2])
    leaf2 = leaf if share else Mod("Leaf2", ports=[("a", w), ("g", 1)], sigs=[("m", 1)], insts=[
        Inst("u", leaf_ext, {"a": Sig("a"), "b": Sig("m")}),
        Inst("rz", Prim("R", dict(r=4)), {"p": Sig("m"), "n": Sig("g")})])
    # a self-contained (port-less) module with internal nets, instantiated at several places
    cell0 = Mod("Cell0", sigs=[("p", 1), ("q", w)], insts=[
        Inst("ra", Prim("R", dict(r=3)), {"p": Sig("p"), "n": Sig("p")}),
        Inst("ca", leaf_ext, {"a": Sig("q"), "b": Sig("p")})])
    # (Mid's port `m` carries the name of Leaf's INTERNAL net, its port `p` that of Cell0's: scopes must not leak downwards)
    mid = Mod("Mid", ports=[("a", w), ("g", 1), ("m", 1), ("p", 1)], sigs=[("kk", w), ("h", 1)], insts=[
        Inst("rm", Prim("R", dict(r=5)), {"p": Sig("m"), "n": Sig("p")}),
        Inst("z", cell0, {}),
        Inst("l0", leaf, {"a": Sig("a"), "g": Sig("g")}),
        Inst(INSTN[imid] if imid >= 0 else "l1", leaf2, {"a": Sig("kk"), "g": Sig("h")}),
        Inst("l2", leaf, {"a": Sig("kk"), "g": Sig("g")})])
    pa = PORTN[sn]  # (a port of the top may carry the ':'-joined name of a net hoisted from below)
    top = Mod("Top", ports=[("t", 1), (pa, w)], sigs=[(SIGN[sn], w), ("g2", 1)], insts=[
        Inst("m0", mid, {"a": Sig(SIGN[sn]), "g": Sig("t"), "m": Sig("g2"), "p": Sig("t")}),
        Inst("m1", mid, {"a": Sig(pa), "g": Sig("g2"), "m": Sig("t"), "p": Sig("g2")}),
        Inst(INSTN[inn], leaf2, {"a": Sig(SIGN[sn]), "g": Sig("g2")}),
        Inst("z0", cell0, {}), Inst("z1", cell0, {}),
        # a LEAF of the top itself, declared after the hierarchy, possibly named like the ':'-joined path of a nested leaf
        Inst(LEAFN[inn], Prim("R", dict(r=7)), {"p": Sig("t"), "n": Sig("g2")})])
    if deep:
        top.name = "Upper"
        top = Mod("Top", ports=[("t", 1), ("u", 1), ("pb", w)], insts=[
            Inst("x0", top, {"t": Sig("t"), pa: Sig("pb")}), Inst("x1", top, {"t": Sig("u"), pa: Sig("pb")})])
    return top


def _names_clash(top_d):
    """does any ':'-joined path name coincide with another net / instance name of the flat module?"""
    names = []

    def rec(mod, path, bound):
        for n, _ in mod.sigs:
            names.append(":".join(path + (n,)))
        if not path:
            names.extend(n for n, _ in mod.ports)
        for i in mod.insts:
            if isinstance(i.of, Mod):
                rec(i.of, path + (i.name,), None)
            else:
                names.append(":".join(path + (i.name,)))

    rec(top_d, (), None)
    return len(set(names)) != len(names)


WHY = {}


def _fail(msg):
    WHY["why"] = msg
    return False


def _run(w, share, ext, deep, sn, inn, imid):
    env._reset_all()
    top_d = design(w, share, ext, deep, sn, inn, imid)
    m = build(top_d)
    pkg = h.to_proto(m)
    want, wl = pkg_nets(pkg)
    ports = [(p.signal, p.direction) for p in pkg.modules[-1].ports]
    widths = {s.name: s.width for s in pkg.modules[-1].signals}
    try:
        from hdl21.flatten import flatten
        f = flatten(m)
        fp = h.to_proto(f)
    except (AttributeError, KeyError, IndexError, TypeError, NameError, AssertionError) as ex:
        env.COUNTS["reached"] += 1
        return _fail("flatten crashed: " + repr(ex)[:200])  # an internal crash is not a rejection of the design
    except Exception as ex:
        env.COUNTS["reached"] += 1
        if not _names_clash(top_d):
            return _fail("flatten rejected a hierarchy without any name clash: " + repr(ex)[:200])
        return True  # rejected with an exception
    env.COUNTS["reached"] += 1
    if check_package(fp):
        return _fail("flat package not closed: " + str(check_package(fp)[:2]))
    fm = fp.modules[-1]
    if any(i.module.WhichOneof("to") == "local" for i in fm.instances) or len(fp.modules) != 1:
        return _fail("flattened module still has hierarchy")
    fw = {s.name: s.width for s in fm.signals}
    if [(p.signal, p.direction) for p in fm.ports] != ports or any(fw[n] != widths[n] for n, _ in ports):
        return _fail("ports changed")
    got, gl = pkg_nets(fp)
    # leaves of the hierarchy, renamed to the documented ':'-joined path names
    ren = {path: (":".join(path),) for path, _, _ in wl}
    if len(set(ren.values())) != len(ren):
        return _fail("two leaves share one flat name, yet flatten() returned")
    if sorted((ren[p], d, prm) for p, d, prm in wl) != sorted(gl):
        return _fail(f"leaf devices differ: {sorted(gl)[:3]}")
    want_r = {frozenset((ren.get(p, p), port, bit) for p, port, bit in g) for g in want}
    if want_r != got:
        from vlib.dsl import describe_diff
        return _fail("partition differs: " + describe_diff(want_r, got))
    return True


@harness("C16", args="w: int, share: bool, ext: bool, deep: bool, sn: int, inn: int, imid: int",
         pre=["1 <= w <= 2", f"0 <= sn < {len(SIGN)}", f"0 <= inn < {len(INSTN)}", f"-1 <= imid < {len(INSTN)}"],
         tiers={"quick": {"timeout": 170, "pre": ["w == 2", "imid <= 1 or imid == 4"], "parts": parts_product([("d0", "deep == False"), ("d1", "deep == True")], [("e0", "ext == False"), ("e1", "ext == True")])},
                "thorough": {"timeout": 900, "parts": parts_product([("d0", "deep == False"), ("d1", "deep == True")], [("e0", "ext == False"), ("e1", "ext == True")], parts_over("sn", range(len(SIGN))))}},
         sample=(2, True, True, True, 2, 1, -1),
         bounds="hierarchies of depth 2-3 (3-4 with the wrapper level), shared or distinct leaf modules, primitive and external-module leaves, bus and scalar nets, internal nets at every level, ports passed through; designer signal / instance names drawn from candidate sets containing the documented ':'-joined path names at every level",
         generalises="shape and name selectors (solver-enumerated; each design runs concretely)", outside="slices / concatenations (flatten documents them as unsupported: rejected); deeper hierarchies; names outside the candidate sets")
def flatten_preserves(w, share, ext, deep, sn, inn, imid):
    P = env.pick
    w, sn, inn, imid = P(w, 1, 2), P(sn, 0, len(SIGN) - 1), P(inn, 0, len(INSTN) - 1), P(imid, -1, len(INSTN) - 1)
    share, ext, deep = bool(share), bool(ext), bool(deep)
    with env.notrace():
        return _run(w, share, ext, deep, sn, inn, imid)
