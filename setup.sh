#!/bin/sh
# Idempotent, offline: overlay venv of /venv (which holds hdl21's deps) + crosshair/z3 from the wheelhouse.
set -e
cd "$(dirname "$0")"
V=/verif/.venv
if [ ! -x "$V/bin/python" ] || ! "$V/bin/python" -c "import crosshair, z3" 2>/dev/null; then
  rm -rf "$V"
  /venv/bin/python -m venv "$V"
  SP=$("$V/bin/python" -c "import sysconfig; print(sysconfig.get_paths()['purelib'])")
  printf '%s\n' "import site; site.addsitedir('/venv/lib/python3.12/site-packages')" /repo /repo/pdks/Sky130 /repo/pdks/Gf180 /repo/pdks/Asap7 > "$SP/verif_overlay.pth"
  PIP_NO_INDEX=1 "$V/bin/pip" install -q --no-index --find-links /opt/veriftools/wheels crosshair-tool z3-solver >/dev/null
fi
"$V/bin/python" -c "import crosshair, z3, hdl21" 
mkdir -p /verif/.work /verif/evidence /verif/replays
