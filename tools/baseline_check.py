"""Run the repository's pinned suite and compare with BASELINE.json's stable_pass list.
usage: /venv/bin/python /verif/tools/baseline_check.py [repo_dir]"""
import json, subprocess, sys, tempfile, os, xml.etree.ElementTree as ET
repo = sys.argv[1] if len(sys.argv) > 1 else "/repo"
base = set(json.load(open("/root/.vp/BASELINE.json"))["stable_pass"])
with tempfile.TemporaryDirectory() as d:
    x = os.path.join(d, "j.xml")
    env = dict(os.environ)
    if repo != "/repo":
        env["PYTHONPATH"] = f"{repo}:{repo}/pdks/Sky130:{repo}/pdks/Gf180:{repo}/pdks/Asap7"
    subprocess.run(["/venv/bin/python", "-m", "pytest", "-q", "-p", "no:cacheprovider", "--timeout=900",
                    "--continue-on-collection-errors", "--junitxml=" + x], cwd=repo, capture_output=True, env=env)
    ok = set()
    for tc in ET.parse(x).iter("testcase"):
        if not [c for c in tc if c.tag in ("failure", "error", "skipped")]:
            ok.add(tc.get("classname") + "::" + tc.get("name"))
missing = sorted(base - ok)
print(f"baseline {len(base)} passing-now {len(ok)} missing {len(missing)}")
for m in missing:
    print("  MISSING", m)
sys.exit(1 if missing else 0)
