"""Regenerate MANIFEST.json from the table below (python3 tools/mkmanifest.py)."""
import json
props = [json.loads(l) for l in open("/verif/properties.jsonl")]
E1 = "symbolic execution of the real Python code with an SMT solver (CrossHair/z3), bounded box, partitioned; counterexamples replayed on the plain interpreter"
ENUM = "solver-enumerated selector space (CrossHair/z3 path enumeration; 'Confirmed over all paths' = every case of the box was run), each case executed concretely on the real code and compared with an independent oracle; counterexamples replayed on the plain interpreter"
CLAIMED = {
    "C04": dict(text="all histories of 3 connection operations (+completion) x {call, setattr, connect, replace, disconnect} x three ports (bus port, two bundle ports of one type) x 8 / 6 kinds of connectable, plus a further instance taking a reference to the edited port, on an Instance (thorough: also InstanceArray); the exported package must equal the reference semantics of the FINAL mapping only",
                note="all inputs are selectors: the solver's role is exhaustive enumeration; oracle vlib/dsl.py", tech=ENUM),
    "C07": dict(text="all histories of 2 (quick) / 3 calls x {elaborate, to_proto, netlist} x any non-empty subset of a 4-module DAG (shared sub-modules, bundle ports, anonymous bundle, port references incl. a pair of leaves joined by a reference only, no-connected bundle port), in either order, alone or as a list; bytes equal those of a twin without history; second export identical; late parents (direct or through Wrapper) see bundle-level ports; elaborated modules refuse additions; two same-named modules from two python files elaborated in any order before their common top",
                note="separate processes are approximated by resetting hdl21's process-global caches and building fresh objects", tech=ENUM),
    "C08": dict(text="a raising user pass at every position of the default pass list x every module of a shared DAG, every C02 fault class detected inside checking and rewriting passes (offending module held as an instance or an instance array), and a generator body raising 1..3 times (alone, after a circular-generator error, or retried inside a catching body); continuations: retry unchanged (same error), unrelated design, design sharing sub-modules, repair and retry, parent's instance of the offending module replaced by a valid module and re-exported (must equal a twin with the same edit history); no later call returns a package a fresh twin would not give",
                note="selectors only; 'same error' compares exception type and message with file paths / addresses removed", tech=ENUM),
    "C10": dict(text="bundle trees of depth 3 with fan-out, 7 leaf kinds per level, flips at every level by flag and by flipped(), role of the instance, leaf widths, port vs internal: exact set of (name, width, direction) of the flattened ports against an independent parity / role oracle, and leaf-by-leaf pairing of a parent's bundle - or of an anonymous bundle made of a signal and differently named whole bundle instances - with the child's bundle port",
                note="flags, kinds and small widths: solver-enumerated", tech=ENUM),
    "C12": dict(text="the iteration order of every set created by the connectable classes is a SYMBOLIC choice vector (vlib/nondet.py) on 10 designs exercising each set-iterating rewriting site; serialized package and spice / spectre / verilog text must equal those of the canonical order; a counterexample is reported only if real sub-processes under different PYTHONHASHSEED values differ byte-wise; three concrete multi-process seeds (the 10 designs, the 7 example programs, a generator design with set-valued parameters) cover address- / str-hash-ordered behaviour the set model cannot express",
                note="any order of a small id-/str-hashed set is assumed reachable for some process; dict order is insertion order by the language", tech=E1),
    "C13": dict(text="value dispatch for 11 ideal primitives (documented VLSIR names / pulse renaming), physical Mos, external module with every accepted value type; Prefixed(coef x 10^exp, prefix) incl. mantissas at the int64 boundary and 1e30; Scalar conversion of ints, floats, Decimals and every string of length <= 3 over a 13-character alphabet",
                note="values realise at pydantic / protobuf / decimal: enumeration inside the stated boxes, no generalisation", tech=ENUM),
    "C15": dict(text="selection by type / family / threshold over the whole enum product for 4 PDKs; every entry of every Sky130 / GF180 device table by model name with sizes / multiplier given or defaulted (valid, netlists, compile twice = once, equal params -> same call); a shared 3-level hierarchy compiled directly / by default / by name / by module / by name or module while another PDK is the default (each equal to the PDK's own compile()); the same model compiled again with another multiplier or width in one process; logic-cell libraries (1/16 quick, all 3148 thorough)",
                note="finite tables: exhaustive enumeration; 3 known findings (devices with more terminals than the generic primitive)", tech=ENUM),
    "C16": dict(text="hierarchies of depth 2-4 with shared leaves, primitive and external-module leaves, bus and scalar nets, designer names of top-level signals, ports, sub-module instances and leaves drawn from candidate sets containing the documented ':'-joined path names, middle-module ports named like the internal nets below them: only leaf instances, one per leaf, ports unchanged, leaf-level partition of flatten(m) equals that of m; rejection only for a real name clash; crashes are violations",
                note="names come from candidate sets (selectors), not from symbolic strings", tech=ENUM),
    "C17": dict(text="Sims of up to 2 (quick) / 3 attributes over 17 attribute kinds (8 analyses incl. nested sweep / Monte-Carlo, options, include, lib, save in all 6 target forms, measurements, parameters, literals), 3 sweep kinds, 4 numeric forms x 6 prefixes, 3 construction styles, alone or in lists sharing or not sharing the testbench; independent expected-SimInput oracle; testbench interface",
                note="selectors only; float fields compared with the float nearest the exact rational value", tech=ENUM),
    "C02": dict(text="22 single-fault classes planted by a symbolic fault planter (fault class x location x delta x width x array size) into a valid hierarchical design with bundle port, array, pair, port reference and no-connect; whether the mutated design really is ill-formed is decided by the independent validity predicate vlib.dsl.ref_valid; post: elaborate, to_proto and netlist each raise",
                note="trusted: ref_valid (transcription of the property's list), CrossHair/z3; name clashes are checked on to_proto/netlist only (the export name space)", tech=E1),
    "C05": dict(text="one harness per naming site (named / unnamed / shared no-connect, implicit port-reference signal, flattened bundle member and mutually colliding members, array element, pair member, members of an instance bundle over a custom bundle, underscore retry) with the DESIGNER'S NAME A SYMBOLIC STRING (any characters, length <= 3 quick / 8 thorough; the designer's object a signal, a port or an instance) and both declaration orders; identity-level post-condition on the elaborated objects; exported partition checked in the concrete replay",
                note="protobuf rejects proxy strings: package-level observation only in replay; trusted CrossHair string theory (z3 seq)", tech=E1),
    "C09": dict(text="injectivity of generated names through the public ExternalModuleCall.name with SYMBOLIC STRING parameter values (printable ASCII, repr() stubbed exactly for that alphabet) plus solver-enumerated adversarial words (quotes, backslash, 'None', newline, non-ASCII); the hashed naming path over confusable optional values (None, 0, 0.0, '', False; direct or nested); floats agreeing in 6 / 15 / 16 digits; Module-valued parameters of one simple name; memoisation across call forms; names independent of 120 call orders of Series/MosStack/handing-on generators",
                note="repr() stub is exact only on the admitted alphabet (pre-condition); md5 collision-freeness assumed past the 128-character switch", tech=E1),
    "C18": dict(text="all 3-operation edit histories (setattr / add(name=) / add) over a 2-3 letter alphabet and 7 value kinds on a Module, and the analogue on a Bundle: coherence invariant after every prefix and exported package = current objects; documented rejections; three class-body bindings (values anonymous or pre-named, one object under two names) equal to the procedural assignments",
                note="all inputs are selectors: the solver's role is exhaustive enumeration (each path runs concretely)", tech=E1),
    "C19": dict(text="Series.func executed with SYMBOLIC n through the generator body, instance array and slice resolution for 6 unit cells (incl. ports named like the generator's internal objects; module units elaborated beforehand) x every ordered series-port pair, compared with the documented chain topology written in the design DSL; MosStack; Wrapper incl. bundle-valued ports and pre-elaborated units; the generated interface checked before elaboration; C06/C11 riders",
                note="n bounded (<=3 quick, <=6 thorough); duck-typed params keep n symbolic (replay uses the real SeriesParams)", tech=E1),
    "C01": dict(text="7 design templates (slices/concats, port references + no-connects, bundles, arrays, pairs, hierarchy, construction styles) with symbolic widths, indices, sizes and connection selectors; exported package read as the VLSIR netlisters read it AND the emitted spice text, both compared with an independent union-find reference semantics on the leaf-level net partition, leaf devices and parameters",
                note="trusted: reference semantics vlib/dsl.py (written from the documentation), package/spice readers vlib/pkgread.py, CrossHair/z3 + prelude", tech=E1),
    "C06": dict(text="closure validator (unique names, definition before use, ports name signals, each target port connected exactly once, in-range width-equal targets) + from_proto + spice and spectre netlisters as a post-condition on every explored path of the design templates; invented-name and namesake-external-module families (solver-enumerated); repository examples and built-in generators as concrete seeds",
                note="trusted: vlib/pkgread.check_package; concrete seeds are not solver-decided; 1 known finding (same-named external modules of different domains are refused by the vlsirtools netlisters)", tech=E1),
    "C11": dict(text="to_proto(from_proto(P)) == P as a post-condition on every design-template path, plus parameter space (10 device kinds incl. controlled sources, pulse sources with unset / literal fields, enums x mantissa x exponent x 21 prefixes, solver-enumerated), slice/concat index conventions incl. strided and reversed parts (symbolic width and bounds), every nested slice / concatenation path of C03 and external-module headers (14 spice types x directions x widths x order)",
                note="values realise at the pydantic/protobuf boundary: bounded-exhaustive enumeration by the solver, no generalisation beyond the box", tech=E1),
    "C03": dict(text="index/slice normalisation kernels decided over UNBOUNDED integers (w, a, b) for each constant step in +-1..+-6; nested slice/concat/reference resolution through the real elaborator+exporter compared with Python list slicing inside a bounded box (W<=3, 12 expression families incl. slices of port / bundle references); every in-range slice selecting a bit (any step) must be accepted",
                note="trusted: CrossHair 0.0.110 + prelude work-arounds (pydantic validation stub, format stub), z3, closed-form CPython slice oracle, pkg_nets reader", tech=E1),
    "C14": dict(text="the real source of hdl21/prefix.py executed symbolically over a Decimal model (two-integer coefficient/exponent, 28-digit context) with symbolic mantissas; unary ops for 25-digit mantissas, binary ops and comparisons in stated smaller boxes; QF_FP lemma for float() when computed by float multiplication; a model-independent concrete grid on the real library as a fallback",
                note="trusted: Decimal model (validated differentially against the real library on every run: gate), CrossHair/z3, CPython float(Decimal) correct rounding", tech=E1 + "; prefix.py source exec'ed over a Decimal model; z3 QF_FP query for float()"),
}
REASON_TODO = "check not built yet (work in progress; see DESIGN.md section 5)"
NOT_APPLICABLE = {}

def main():
    man = {
        "version": 1, "setup_cmd": "./setup.sh",
        "hooks": {"guard": "HDL21_VERIF", "enable": "no hooks in /repo: all interposition happens from the harness side (vlib/prelude.py, vlib/modelload.py)",
                  "baseline_off_cmd": "cd /repo && /venv/bin/python -m pytest -ra -q -p no:cacheprovider --timeout=900 --continue-on-collection-errors",
                  "source_commits": [], "add_only": True},
        "engines": [{"name": "E1-crosshair", "path": "vlib/main.py", "serves_properties": sorted(CLAIMED),
                     "kind_free_text": "CrossHair 0.0.110 symbolic execution of the real Hdl21 code on z3, partitioned over 16 workers; every counterexample replayed in plain Python before it is reported"},
                    {"name": "nondet-set", "path": "vlib/nondet.py", "serves_properties": ["C12"], "kind_free_text": "symbolic iteration order for hdl21's sets (environment nondeterminism as a symbolic input)"},
                    {"name": "E2-decimal-model", "path": "vlib/modelload.py", "serves_properties": ["C14"],
                     "kind_free_text": "real prefix.py source exec'ed over vlib/mdec.py (Decimal model) under CrossHair"},
                    {"name": "E3-smt", "path": "harness/c14_prefix.py", "serves_properties": ["C14"], "kind_free_text": "direct z3 QF_FP queries"}],
        "checks": [], "not_applicable": [],
        "notes": "See DESIGN.md. Exit 1 only for replay-confirmed violations not listed in known_findings.json; inconclusive parts are itemised in evidence and printed as INCONCLUSIVE lines (exit 0).",
    }
    for p in props:
        i = p["id"]
        if i in CLAIMED:
            c = CLAIMED[i]
            man["checks"].append({
                "property_id": i, "quick_cmd": f"./check {i} --tier quick", "thorough_cmd": f"./check {i} --tier thorough",
                "evidence_file": f"evidence/{i}.json", "replay_cmd_template": "python3 tools/replayfile.py {path}", "engine": "E1-crosshair",
                "level_claimed": {"category": "other", "text": "bounded symbolic execution of the real code; 'Confirmed over all paths' per partition = holds for every input of that partition. " + c["text"],
                                  "design_ref": f"DESIGN.md section 5, {i}"},
                "level_note": c["note"], "technique": c["tech"]})
        else:
            man["not_applicable"].append({"property_id": i, "reason": NOT_APPLICABLE.get(i, REASON_TODO)})
    json.dump(man, open("/verif/MANIFEST.json", "w"), indent=1)

main()
