"""Concrete run of the battery: oracle vs package (developer tool)."""
import sys
sys.path.insert(0, "/verif")
from vlib import env
import hdl21 as h
from vlib.dsl import ref_nets, describe_diff
from vlib.build import build
from vlib.pkgread import pkg_nets, check_package
from harness._battery import battery
style = sys.argv[1] if len(sys.argv) > 1 else "proc"
for label, top in battery():
    env.reset_all()
    want, wl = ref_nets(top)
    try:
        pkg = h.to_proto(build(top, style))
    except Exception as ex:
        print(f"{label:28s} EXC {type(ex).__name__}: {str(ex).splitlines()[-1][:100]}")
        continue
    try:
        got, gl = pkg_nets(pkg)
    except AssertionError as ex:
        print(f"{label:28s} READ-ERR {ex}"); continue
    ok = want == got and [l[0] for l in wl] == [l[0] for l in gl]
    probs = check_package(pkg)
    print(f"{label:28s} {'OK' if ok else 'MISMATCH'} {probs[:2] if probs else ''}")
    if not ok:
        print("    ", describe_diff(want, got))
