"""Concrete run of the battery: oracle vs package + riders (developer tool)."""
import sys
sys.path.insert(0, "/verif")
from vlib import env
import hdl21 as h
from vlib import designcheck as dc
from harness._battery import battery
style = sys.argv[1] if len(sys.argv) > 1 else "proc"
for label, top in battery():
    try:
        ok = dc.run(top, style)
    except Exception as ex:
        import traceback
        print(f"{label:28s} EXC {type(ex).__name__}: {str(ex).splitlines()[-1][:160]}")
        continue
    print(f"{label:28s} {'OK' if ok else 'FAIL ' + dc.LAST['why'][:300]}")
