"""Confirm a seeded change and run checks against it.
usage: tools/seedtest.py <seed dir under /verif/seeded> <property id> [check ids...] [--tier quick]
 1. fresh scratch worktree of /repo: apply patch; the pinned suite must still pass; demo must fail with the
    patch and pass without it.
 2. git -C /repo apply patch; run ./check <id> for each id; git -C /repo checkout -- .
Writes <seed dir>/meta.json."""
import json, os, subprocess, sys, time
seed = os.path.abspath(sys.argv[1]); prop = sys.argv[2]
ids = [prop] + [a for a in sys.argv[3:] if not a.startswith("--") and a != prop]
tier = "thorough" if "--thorough" in sys.argv else "quick"
patch = os.path.join(seed, "patch.diff")
wt = "/tmp/vseed_" + os.path.basename(seed)
def sh(cmd, **kw):
    return subprocess.run(cmd, shell=True, capture_output=True, text=True, **kw)
meta = {"breaks_property": prop, "patch": "patch.diff", "demo": "demo.py"}
if os.path.exists(os.path.join(seed, "meta.json")):
    meta.update(json.load(open(os.path.join(seed, "meta.json"))))
if "--skip-confirm" not in sys.argv:
    sh(f"git -C /repo worktree remove --force {wt}"); sh(f"rm -rf {wt}")
    r = sh(f"git -C /repo worktree add -q --detach {wt} HEAD"); assert r.returncode == 0, r.stderr
    try:
        pp = f"PYTHONPATH={wt}:{wt}/pdks/Sky130:{wt}/pdks/Gf180:{wt}/pdks/Asap7"
        d0 = sh(f"cd {wt} && {pp} /venv/bin/python {seed}/demo.py")
        r = sh(f"git -C {wt} apply {patch}"); assert r.returncode == 0, "patch does not apply: " + r.stderr
        b = sh(f"/venv/bin/python /verif/tools/baseline_check.py {wt}")
        d1 = sh(f"cd {wt} && {pp} /venv/bin/python {seed}/demo.py")
        meta["confirmed"] = {"suite_with_patch": b.stdout.strip().splitlines()[0] if b.stdout else b.stderr[-200:], "suite_ok": b.returncode == 0,
                             "demo_without_patch_exit": d0.returncode, "demo_with_patch_exit": d1.returncode,
                             "demo_with_patch_tail": (d1.stdout + d1.stderr)[-400:]}
        print("confirm:", meta["confirmed"]["suite_with_patch"], "demo without:", d0.returncode, "with:", d1.returncode)
    finally:
        sh(f"git -C /repo worktree remove --force {wt}"); sh(f"rm -rf {wt}")
SCR = "--scratch" in sys.argv  # run against a scratch worktree (lets other work continue on /repo meanwhile)
if "--confirm-only" not in sys.argv:
    if SCR:
        target = "/tmp/vseedrun_" + os.path.basename(seed)
        sh(f"git -C /repo worktree remove --force {target}"); sh(f"rm -rf {target}")
        r = sh(f"git -C /repo worktree add -q --detach {target} HEAD"); assert r.returncode == 0, r.stderr
        pre = f"VERIF_REPO={target} VERIF_WORKTAG=_{os.path.basename(seed)} VERIF_JOBS={os.environ.get('VERIF_JOBS', '8')} "
    else:
        target, pre = "/repo", ""
        assert sh("git -C /repo status --porcelain").stdout.strip() == "", "/repo not clean"
    r = sh(f"git -C {target} apply {patch}"); assert r.returncode == 0, r.stderr
    res = meta.setdefault("checks_run", {})
    try:
        for i in ids:
            t = time.time()
            c = sh(f"cd /verif && {pre}./check {i} --tier {tier}")
            viol = [l for l in c.stdout.splitlines() if l.startswith("VIOLATION")]
            detail = [l for l in c.stdout.splitlines() if l.startswith("  harness=")]
            res[f"{i}:{tier}"] = {"exit": c.returncode, "violations": len(viol), "first": (detail[0][:300] if detail else ""), "wall_s": round(time.time() - t)}
            print(i, tier, "exit", c.returncode, "violations", len(viol), detail[0][:200] if detail else "", [l for l in c.stdout.splitlines() if l.startswith("SUMMARY")][-1:] )
    finally:
        if SCR:
            sh(f"git -C /repo worktree remove --force {target}"); sh(f"rm -rf {target}")
        else:
            sh("git -C /repo checkout -- .")
            assert sh("git -C /repo status --porcelain").stdout.strip() == ""
json.dump(meta, open(os.path.join(seed, "meta.json"), "w"), indent=1)
