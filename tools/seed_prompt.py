"""print the prompt for a seeding sub-agent: tools/seed_prompt.py C01 /tmp/seed_C01"""
import json, sys
pid, wt = sys.argv[1], sys.argv[2]
p = [json.loads(l) for l in open("/verif/properties.jsonl") if json.loads(l)["id"] == pid][0]
print(f"""You are helping to evaluate a verification effort for the open-source Python library Hdl21 (dan-fritchman/Hdl21: an analog hardware description library). Your job: produce ONE realistic source change to the library that BREAKS the semantic property below, while the library still imports and its existing test suite still passes.

The property ({pid}: {p['title']}):
  {p['statement']}
  Quantified over: {p['quantifier']['text']}
  (Why the test-suite cannot settle it: {p['why_tests_cant']})
  Code it is anchored in: {', '.join(p['anchors']['files'])}

Your scratch copy of the repository is the git worktree {wt} (work ONLY there; never touch /repo or /verif; do not read anything under /verif).
Python interpreter: /venv/bin/python. IMPORTANT: hdl21 is installed in /venv as an editable install that points at /repo, so to import YOUR copy always run with
  cd {wt} && PYTHONPATH={wt}:{wt}/pdks/Sky130:{wt}/pdks/Gf180:{wt}/pdks/Asap7 /venv/bin/python ...
and run the test suite with
  cd {wt} && PYTHONPATH={wt}:{wt}/pdks/Sky130:{wt}/pdks/Gf180:{wt}/pdks/Asap7 /venv/bin/python -m pytest -q -p no:cacheprovider --timeout=900 --continue-on-collection-errors
(run it once on the unchanged tree first to record the baseline counts; exactly the same tests must still pass with your change - verify that `import hdl21; print(hdl21.__file__)` shows your worktree).

Requirements for the change:
 * It must be a plausible bug a developer could introduce (a refactor slip, an off-by-one, a wrong condition, a dropped call, a cache key mistake, two sites that each look fine alone...), small (a few lines), and must NOT be caught by the existing tests.
 * Prefer a change that needs something SPECIFIC to manifest - an unusual input, a particular combination of features, a multi-step sequence of operations, a particular value range - rather than one that ordinary use would expose at once.
 * It must make the property above false for some input/design/history (not merely change cosmetics such as invented names when the property does not fix them).
Deliverables, all written into {wt}/SEED/ :
 1. patch.diff  - output of `git diff` for your change (only library source files; not the SEED directory)
 2. demo.py     - a small standalone program that exits 0 on the unchanged tree and exits non-zero (assertion failure) with your change applied, demonstrating the property violation through the library's public API. Run it with the PYTHONPATH line above in both states and confirm both outcomes yourself (use `git diff > /tmp/my.patch; git apply -R /tmp/my.patch; ...; git apply /tmp/my.patch` - do NOT use `git stash`: the stash is shared by all worktrees of the repository and other agents are working in sibling worktrees).
 3. notes.md    - 5-10 lines: what the change is, what it needs in order to manifest, which inputs expose it, and the exact commands you ran with their outcomes (tests passed count; demo result with/without).
Leave the worktree with the change APPLIED. Finish with a short report (what you changed and the demo outcome).""")
