"""Re-run the counterexample recorded in a replay file against the real code (plain Python, no solver):
python3 tools/replayfile.py replays/<file>.json   ->  prints the outcome; exit 1 while it still fails, 0 once it passes."""
import json, os, subprocess, sys, tempfile
r = json.load(open(sys.argv[1]))
repo = os.environ.get("VERIF_REPO", "/repo")
with tempfile.NamedTemporaryFile("w", suffix=".json", delete=False) as f:
    json.dump(r["args"], f)
env = dict(os.environ, PYTHONPATH=f"/verif:{repo}:{repo}/pdks/Sky130:{repo}/pdks/Gf180:{repo}/pdks/Asap7")
py = "/verif/.venv/bin/python" if os.path.exists("/verif/.venv/bin/python") else "/venv/bin/python"
p = subprocess.run([py, "-m", "vlib.replay", r["module"], r["harness"], f.name], capture_output=True, text=True, env=env, cwd="/verif")
os.unlink(f.name)
line = [l for l in p.stdout.splitlines() if l.startswith("@@REPLAY")]
out = json.loads(line[-1][len("@@REPLAY"):]) if line else {"ok": False, "why": (p.stderr or p.stdout)[-500:]}
print(f"property={r['property']} harness={r['harness']} args={r['args']}")
print("PASSES now" if out.get("ok") else "STILL FAILS: " + str(out.get("why"))[:600])
sys.exit(0 if out.get("ok") else 1)
