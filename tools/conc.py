"""developer tool: run a harness body concretely: tools/conc.py harness.mod func 'json args'"""
import sys, json, importlib
sys.path.insert(0, "/verif")
m = importlib.import_module(sys.argv[1]); f = getattr(m, sys.argv[2])
print(f(*json.loads(sys.argv[3])))
